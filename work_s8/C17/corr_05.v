From Coq Require Import Reals Lra.
From Interval Require Import Tactic.
From RV Require Import IR.Model IR.Proofs.
Open Scope R_scope.
Lemma r_A02_8 : rio_reads A02_c A02_e A02_lo A02_hi floor_volts ctol (Build_rio (Fin (357539307115111 / 140737488355328)) (Fin (0 / 1)) (Fin (3715469692580659 / 1125899906842624)) (Fin (6 / 1)) (Fin (12 / 1)) true true true ((Fin (0 / 1)) :: (Fin (0 / 1)) :: (Fin (0 / 1)) :: (Fin (0 / 1)) :: (Fin (27 / 4)) :: (Fin (45 / 1)) :: nil)) (45 / 2).
Proof. apply (A02_rio_fin _ (357539307115111 / 140737488355328)); [reflexivity | apply (A02_q_lo 357539307115111 140737488355328 45 2); [vm_compute; reflexivity | unfold fr, ctol, A02_lo, A02_c, A02_e; interval with (i_prec 80)]]. Qed.
Lemma r_A02_39 : rio_reads A02_c A02_e A02_lo A02_hi floor_volts ctol (Build_rio (Fin (179769313486231570814527423731704356798070567525844996598917476803157260780028538760589558632766878171540458953514382464234321326889464182768467546703537516986049910576551282076245490090389328944075868508455133942304583236903222948165808559332123348274797826204144723168738177180919299881250404026184124858368 / 1)) (Fin (5 / 1)) (Fin (3715469692580659 / 1125899906842624)) PInf (Fin (12 / 1)) true true true ((Fin (0 / 1)) :: (Fin (0 / 1)) :: (Fin (0 / 1)) :: (Fin (0 / 1)) :: (Fin (27 / 4)) :: (Fin (45 / 1)) :: nil)) (45 / 2).
Proof. apply (A02_rio_fin _ (179769313486231570814527423731704356798070567525844996598917476803157260780028538760589558632766878171540458953514382464234321326889464182768467546703537516986049910576551282076245490090389328944075868508455133942304583236903222948165808559332123348274797826204144723168738177180919299881250404026184124858368 / 1)); [reflexivity | apply (A02_q_lo 179769313486231570814527423731704356798070567525844996598917476803157260780028538760589558632766878171540458953514382464234321326889464182768467546703537516986049910576551282076245490090389328944075868508455133942304583236903222948165808559332123348274797826204144723168738177180919299881250404026184124858368 1 45 2); [vm_compute; reflexivity | unfold fr, ctol, A02_lo, A02_c, A02_e; interval with (i_prec 80)]]. Qed.
Lemma r_A02_57 : rio_reads A02_c A02_e A02_lo A02_hi floor_volts ctol (Build_rio (Fin (945 / 2048)) (Fin (0 / 1)) (Fin (0 / 1)) (Fin (0 / 1)) (Fin (12 / 1)) false false false ((Fin (0 / 1)) :: (Fin (0 / 1)) :: (Fin (0 / 1)) :: (Fin (0 / 1)) :: (Fin (27 / 4)) :: (Fin (45 / 1)) :: nil)) (637395796127965 / 4398046511104).
Proof. apply (A02_rio_fin _ (945 / 2048)); [reflexivity | apply (A02_q_mid 945 2048 637395796127965 4398046511104); [vm_compute; reflexivity | unfold fr, close, ctol, A02_c, A02_e; interval with (i_prec 80)]]. Qed.
Lemma r_A02_73 : rio_reads A02_c A02_e A02_lo A02_hi floor_volts ctol (Build_rio (Fin (15 / 128)) (Fin (1083 / 256)) (Fin (3715469692580659 / 1125899906842624)) (Fin (397 / 256)) (Fin (5779 / 512)) false true true ((Fin (529 / 1024)) :: (Fin (1483 / 1024)) :: (Fin (35 / 128)) :: (Fin (142435 / 1024)) :: (Fin (419 / 128)) :: (Fin (70051 / 1024)) :: nil)) (145 / 1).
Proof. apply (A02_rio_fin _ (15 / 128)); [reflexivity | apply (A02_q_hi 15 128 145 1); [vm_compute; reflexivity | unfold fr, ctol, A02_hi, A02_c, A02_e; interval with (i_prec 80)]]. Qed.
Lemma r_A02_89 : rio_reads A02_c A02_e A02_lo A02_hi floor_volts ctol (Build_rio (Fin (55 / 128)) (Fin (5 / 1)) (Fin (3715469692580659 / 1125899906842624)) (Fin (6 / 1)) (Fin (12 / 1)) true true true ((Fin (0 / 1)) :: (Fin (0 / 1)) :: (Fin (0 / 1)) :: (Fin (0 / 1)) :: (Fin (27 / 4)) :: (Fin (45 / 1)) :: nil)) (145 / 1).
Proof. apply (A02_rio_fin _ (55 / 128)); [reflexivity | apply (A02_q_hi 55 128 145 1); [vm_compute; reflexivity | unfold fr, ctol, A02_hi, A02_c, A02_e; interval with (i_prec 80)]]. Qed.
Lemma r_A02_105 : rio_reads A02_c A02_e A02_lo A02_hi floor_volts ctol (Build_rio (Fin (95 / 128)) (Fin (4669 / 1024)) (Fin (3559 / 1024)) (Fin ((-1) / 1)) (Fin (12 / 1)) true true true ((Fin (271 / 512)) :: (Fin (1255 / 1024)) :: (Fin (677 / 256)) :: (Fin (19975 / 512)) :: (Fin (6597 / 1024)) :: (Fin (18943 / 512)) :: nil)) (1517286252893483 / 17592186044416).
Proof. apply (A02_rio_fin _ (95 / 128)); [reflexivity | apply (A02_q_mid 95 128 1517286252893483 17592186044416); [vm_compute; reflexivity | unfold fr, close, ctol, A02_c, A02_e; interval with (i_prec 80)]]. Qed.
Lemma r_A02_121 : rio_reads A02_c A02_e A02_lo A02_hi floor_volts ctol (Build_rio (Fin (135 / 128)) (Fin (5069 / 1024)) (Fin (3715469692580659 / 1125899906842624)) (Fin (3105 / 512)) NInf false true true ((Fin (129 / 64)) :: (Fin (305 / 256)) :: (Fin (1309 / 1024)) :: (Fin (24385 / 512)) :: (Fin (2663 / 512)) :: (Fin (27647 / 1024)) :: nil)) (8270032414182963 / 140737488355328).
Proof. apply (A02_rio_fin _ (135 / 128)); [reflexivity | apply (A02_q_mid 135 128 8270032414182963 140737488355328); [vm_compute; reflexivity | unfold fr, close, ctol, A02_c, A02_e; interval with (i_prec 80)]]. Qed.
Lemma r_A02_137 : rio_reads A02_c A02_e A02_lo A02_hi floor_volts ctol (Build_rio (Fin (175 / 128)) (Fin (5 / 1)) (Fin (3715469692580659 / 1125899906842624)) (Fin (6 / 1)) (Fin (12 / 1)) true true true ((Fin (0 / 1)) :: (Fin (0 / 1)) :: (Fin (0 / 1)) :: (Fin (0 / 1)) :: (Fin (27 / 4)) :: (Fin (45 / 1)) :: nil)) (3114613359822671 / 70368744177664).
Proof. apply (A02_rio_fin _ (175 / 128)); [reflexivity | apply (A02_q_mid 175 128 3114613359822671 70368744177664); [vm_compute; reflexivity | unfold fr, close, ctol, A02_c, A02_e; interval with (i_prec 80)]]. Qed.
Lemma r_A02_153 : rio_reads A02_c A02_e A02_lo A02_hi floor_volts ctol (Build_rio (Fin (215 / 128)) (Fin (4905 / 512)) (Fin (14293 / 1024)) (Fin (6415 / 1024)) (Fin (5059 / 512)) true false false ((Fin (1591 / 1024)) :: (Fin (141 / 128)) :: (Fin (433 / 1024)) :: (Fin (84507 / 1024)) :: (Fin (55 / 16)) :: (Fin ((-4607) / 512)) :: nil)) (4975181039796761 / 140737488355328).
Proof. apply (A02_rio_fin _ (215 / 128)); [reflexivity | apply (A02_q_mid 215 128 4975181039796761 140737488355328); [vm_compute; reflexivity | unfold fr, close, ctol, A02_c, A02_e; interval with (i_prec 80)]]. Qed.
Lemma r_A02_169 : rio_reads A02_c A02_e A02_lo A02_hi floor_volts ctol (Build_rio (Fin (255 / 128)) (Fin (5365 / 1024)) (Fin (5073 / 1024)) (Fin (5067 / 1024)) (Fin (12903 / 1024)) true true true ((Fin (2183 / 1024)) :: (Fin (1569 / 1024)) :: (Fin (399 / 1024)) :: (Fin (127131 / 1024)) :: (Fin (2837 / 512)) :: (Fin (35771 / 512)) :: nil)) (8258854320710547 / 281474976710656).
Proof. apply (A02_rio_fin _ (255 / 128)); [reflexivity | apply (A02_q_mid 255 128 8258854320710547 281474976710656); [vm_compute; reflexivity | unfold fr, close, ctol, A02_c, A02_e; interval with (i_prec 80)]]. Qed.
Lemma r_A02_185 : rio_reads A02_c A02_e A02_lo A02_hi floor_volts ctol (Build_rio (Fin (295 / 128)) (Fin (5 / 1)) (Fin (3715469692580659 / 1125899906842624)) (Fin (6 / 1)) (Fin (12 / 1)) true true true ((Fin (0 / 1)) :: (Fin (0 / 1)) :: (Fin (0 / 1)) :: (Fin (0 / 1)) :: (Fin (27 / 4)) :: (Fin (45 / 1)) :: nil)) (7043946376878299 / 281474976710656).
Proof. apply (A02_rio_fin _ (295 / 128)); [reflexivity | apply (A02_q_mid 295 128 7043946376878299 281474976710656); [vm_compute; reflexivity | unfold fr, close, ctol, A02_c, A02_e; interval with (i_prec 80)]]. Qed.
Lemma r_A02_201 : rio_reads A02_c A02_e A02_lo A02_hi floor_volts ctol (Build_rio (Fin (675 / 256)) (Fin (8279 / 1024)) (Fin (1661 / 512)) (Fin (201 / 32)) (Fin (10595 / 1024)) true true true ((Fin (127 / 256)) :: (Fin (537 / 512)) :: (Fin (783 / 512)) :: (Fin (84281 / 1024)) :: (Fin (2753 / 512)) :: (Fin (48035 / 1024)) :: nil)) (45 / 2).
Proof. apply (A02_rio_fin _ (675 / 256)); [reflexivity | apply (A02_q_lo 675 256 45 2); [vm_compute; reflexivity | unfold fr, ctol, A02_lo, A02_c, A02_e; interval with (i_prec 80)]]. Qed.
Lemma r_A02_217 : rio_reads A02_c A02_e A02_lo A02_hi floor_volts ctol (Build_rio (Fin (755 / 256)) NInf (Fin (419 / 128)) (Fin (6713 / 1024)) (Fin (4961 / 512)) true true true ((Fin (725 / 256)) :: (Fin (563 / 512)) :: (Fin (2711 / 1024)) :: (Fin (20273 / 512)) :: (Fin (797 / 256)) :: (Fin ((-18153) / 1024)) :: nil)) (45 / 2).
Proof. apply (A02_rio_fin _ (755 / 256)); [reflexivity | apply (A02_q_lo 755 256 45 2); [vm_compute; reflexivity | unfold fr, ctol, A02_lo, A02_c, A02_e; interval with (i_prec 80)]]. Qed.
Lemma r_A02_233 : rio_reads A02_c A02_e A02_lo A02_hi floor_volts ctol (Build_rio (Fin (835 / 256)) (Fin (5 / 1)) (Fin (3715469692580659 / 1125899906842624)) (Fin (6 / 1)) (Fin (12 / 1)) true true true ((Fin (0 / 1)) :: (Fin (0 / 1)) :: (Fin (0 / 1)) :: (Fin (0 / 1)) :: (Fin (27 / 4)) :: (Fin (45 / 1)) :: nil)) (45 / 2).
Proof. apply (A02_rio_fin _ (835 / 256)); [reflexivity | apply (A02_q_lo 835 256 45 2); [vm_compute; reflexivity | unfold fr, ctol, A02_lo, A02_c, A02_e; interval with (i_prec 80)]]. Qed.
Lemma r_A02_249 : rio_reads A02_c A02_e A02_lo A02_hi floor_volts ctol (Build_rio (Fin (915 / 256)) (Fin ((-12) / 1)) (Fin (3151 / 1024)) PInf (Fin (9 / 2)) true true true ((Fin (689 / 1024)) :: (Fin (1491 / 1024)) :: (Fin (1055 / 1024)) :: (Fin (9757 / 256)) :: (Fin (1811 / 256)) :: (Fin ((-7723) / 512)) :: nil)) (45 / 2).
Proof. apply (A02_rio_fin _ (915 / 256)); [reflexivity | apply (A02_q_lo 915 256 45 2); [vm_compute; reflexivity | unfold fr, ctol, A02_lo, A02_c, A02_e; interval with (i_prec 80)]]. Qed.
Lemma r_A02_265 : rio_reads A02_c A02_e A02_lo A02_hi floor_volts ctol (Build_rio (Fin (995 / 256)) (Fin (335 / 64)) (Fin (775 / 256)) (Fin (1345 / 256)) (Fin (100000000000000001097906362944045541740492309677311846336810682903157585404911491537163328978494688899061249669721172515611590283743140088328307009198146046031271664502933027185697489699588559043338384466165001178426897626212945177628091195786707458122783970171784415105291802893207873272974885715430223118336 / 1)) true false true ((Fin (477 / 1024)) :: (Fin (51 / 128)) :: (Fin (243 / 1024)) :: (Fin (151519 / 1024)) :: (Fin (669 / 128)) :: (Fin (72591 / 1024)) :: nil)) (45 / 2).
Proof. apply (A02_rio_fin _ (995 / 256)); [reflexivity | apply (A02_q_lo 995 256 45 2); [vm_compute; reflexivity | unfold fr, ctol, A02_lo, A02_c, A02_e; interval with (i_prec 80)]]. Qed.
Lemma r_A02_281 : rio_reads A02_c A02_e A02_lo A02_hi floor_volts ctol (Build_rio (Fin (1075 / 256)) (Fin (5 / 1)) (Fin (3715469692580659 / 1125899906842624)) (Fin (6 / 1)) (Fin (12 / 1)) true true true ((Fin (0 / 1)) :: (Fin (0 / 1)) :: (Fin (0 / 1)) :: (Fin (0 / 1)) :: (Fin (27 / 4)) :: (Fin (45 / 1)) :: nil)) (45 / 2).
Proof. apply (A02_rio_fin _ (1075 / 256)); [reflexivity | apply (A02_q_lo 1075 256 45 2); [vm_compute; reflexivity | unfold fr, ctol, A02_lo, A02_c, A02_e; interval with (i_prec 80)]]. Qed.
Lemma r_A02_297 : rio_reads A02_c A02_e A02_lo A02_hi floor_volts ctol (Build_rio (Fin (1155 / 256)) (Fin (4781 / 1024)) (Fin (3075 / 1024)) (Fin (735 / 128)) (Fin (10131 / 1024)) true false true ((Fin (149 / 64)) :: (Fin (557 / 1024)) :: (Fin (2433 / 1024)) :: (Fin (12933 / 128)) :: (Fin (4597 / 1024)) :: (Fin (13769 / 1024)) :: nil)) (45 / 2).
Proof. apply (A02_rio_fin _ (1155 / 256)); [reflexivity | apply (A02_q_lo 1155 256 45 2); [vm_compute; reflexivity | unfold fr, ctol, A02_lo, A02_c, A02_e; interval with (i_prec 80)]]. Qed.
Lemma r_A02_313 : rio_reads A02_c A02_e A02_lo A02_hi floor_volts ctol (Build_rio (Fin (1235 / 256)) (Fin (3581 / 512)) (Fin (3715469692580659 / 1125899906842624)) (Fin (5377 / 1024)) (Fin (1 / 202402253307310618352495346718917307049556649764142118356901358027430339567995346891960383701437124495187077864316811911389808737385793476867013399940738509921517424276566361364466907742093216341239767678472745068562007483424692698618103355649159556340810056512358769552333414615230502532186327508646006263307707741093494784)) true false true ((Fin (1847 / 1024)) :: (Fin (545 / 1024)) :: (Fin (623 / 256)) :: (Fin (179889 / 1024)) :: (Fin (6761 / 1024)) :: (Fin (44539 / 1024)) :: nil)) (45 / 2).
Proof. apply (A02_rio_fin _ (1235 / 256)); [reflexivity | apply (A02_q_lo 1235 256 45 2); [vm_compute; reflexivity | unfold fr, ctol, A02_lo, A02_c, A02_e; interval with (i_prec 80)]]. Qed.
Lemma r_A02_329 : rio_reads A02_c A02_e A02_lo A02_hi floor_volts ctol (Build_rio (Fin (233298917043719 / 140737488355328)) (Fin (5 / 1)) (Fin (3715469692580659 / 1125899906842624)) (Fin (6 / 1)) (Fin (12 / 1)) true true true ((Fin (0 / 1)) :: (Fin (0 / 1)) :: (Fin (0 / 1)) :: (Fin (0 / 1)) :: (Fin (27 / 4)) :: (Fin (45 / 1)) :: nil)) (2523662117250781 / 70368744177664).
Proof. apply (A02_rio_fin _ (233298917043719 / 140737488355328)); [reflexivity | apply (A02_q_mid 233298917043719 140737488355328 2523662117250781 70368744177664); [vm_compute; reflexivity | unfold fr, close, ctol, A02_c, A02_e; interval with (i_prec 80)]]. Qed.
Lemma r_A02_345 : rio_reads A02_c A02_e A02_lo A02_hi floor_volts ctol (Build_rio (Fin (8602794557053471 / 2251799813685248)) (Fin (8049 / 1024)) (Fin (1581 / 512)) NInf (Fin (1295 / 128)) false true true ((Fin (1915 / 1024)) :: (Fin (519 / 512)) :: (Fin (2197 / 1024)) :: (Fin (67553 / 512)) :: (Fin (1011 / 128)) :: (Fin (89875 / 1024)) :: nil)) (45 / 2).
Proof. apply (A02_rio_fin _ (8602794557053471 / 2251799813685248)); [reflexivity | apply (A02_q_lo 8602794557053471 2251799813685248 45 2); [vm_compute; reflexivity | unfold fr, ctol, A02_lo, A02_c, A02_e; interval with (i_prec 80)]]. Qed.
Lemma r_A02_361 : rio_reads A02_c A02_e A02_lo A02_hi floor_volts ctol (Build_rio (Fin (893459623133725 / 2251799813685248)) (Fin (5581 / 1024)) (Fin (3715469692580659 / 1125899906842624)) (Fin (0 / 1)) (Fin (12 / 1)) false true true ((Fin (2855 / 1024)) :: (Fin (609 / 512)) :: (Fin (1671 / 1024)) :: (Fin (1299 / 16)) :: (Fin (3741 / 1024)) :: (Fin (85889 / 1024)) :: nil)) (145 / 1).
Proof. apply (A02_rio_fin _ (893459623133725 / 2251799813685248)); [reflexivity | apply (A02_q_hi 893459623133725 2251799813685248 145 1); [vm_compute; reflexivity | unfold fr, ctol, A02_hi, A02_c, A02_e; interval with (i_prec 80)]]. Qed.
Lemma r_A02_377 : rio_reads A02_c A02_e A02_lo A02_hi floor_volts ctol (Build_rio (Fin (1929116120889345 / 9007199254740992)) (Fin (5 / 1)) (Fin (3715469692580659 / 1125899906842624)) (Fin (6 / 1)) (Fin (12 / 1)) true true true ((Fin (0 / 1)) :: (Fin (0 / 1)) :: (Fin (0 / 1)) :: (Fin (0 / 1)) :: (Fin (27 / 4)) :: (Fin (45 / 1)) :: nil)) (145 / 1).
Proof. apply (A02_rio_fin _ (1929116120889345 / 9007199254740992)); [reflexivity | apply (A02_q_hi 1929116120889345 9007199254740992 145 1); [vm_compute; reflexivity | unfold fr, ctol, A02_hi, A02_c, A02_e; interval with (i_prec 80)]]. Qed.
Lemma r_A02_395 : rio_reads A02_c A02_e A02_lo A02_hi floor_volts ctol (Build_rio (Fin (3653209461272153 / 140737488355328)) (Fin (5 / 1)) (Fin (3715469692580659 / 1125899906842624)) (Fin (6 / 1)) (Fin (12 / 1)) true true true ((Fin (0 / 1)) :: (Fin (0 / 1)) :: (Fin (0 / 1)) :: (Fin (0 / 1)) :: (Fin (27 / 4)) :: (Fin (45 / 1)) :: nil)) (45 / 2).
Proof. apply (A02_rio_fin _ (3653209461272153 / 140737488355328)); [reflexivity | apply (A02_q_lo 3653209461272153 140737488355328 45 2); [vm_compute; reflexivity | unfold fr, ctol, A02_lo, A02_c, A02_e; interval with (i_prec 80)]]. Qed.
Lemma r_A02_414 : rio_reads A02_c A02_e A02_lo A02_hi floor_volts ctol (Build_rio (Fin (5052290029309157 / 2251799813685248)) (Fin (669 / 64)) (Fin ((-12) / 1)) (Fin (5771 / 1024)) (Fin (2833 / 256)) true true true ((Fin (319 / 128)) :: (Fin (621 / 512)) :: (Fin (1819 / 1024)) :: (Fin (60389 / 1024)) :: (Fin (417 / 128)) :: (Fin (60829 / 1024)) :: nil)) (3626700765444651 / 140737488355328).
Proof. apply (A02_rio_fin _ (5052290029309157 / 2251799813685248)); [reflexivity | apply (A02_q_mid 5052290029309157 2251799813685248 3626700765444651 140737488355328); [vm_compute; reflexivity | unfold fr, close, ctol, A02_c, A02_e; interval with (i_prec 80)]]. Qed.
Lemma d_A02_5r : rio_reads A02_c A02_e A02_lo A02_hi floor_volts ctol (Build_rio (Fin (5506844515100971 / 4503599627370496)) (Fin (21 / 4)) (Fin (3715469692580659 / 1125899906842624)) (Fin (6 / 1)) (Fin (12 / 1)) true true true ((Fin (0 / 1)) :: (Fin (0 / 1)) :: (Fin (0 / 1)) :: (Fin (0 / 1)) :: (Fin (27 / 4)) :: (Fin (45 / 1)) :: nil)) (7036874417766401 / 140737488355328).
Proof. apply (A02_rio_fin _ (5506844515100971 / 4503599627370496)); [reflexivity | apply (A02_q_mid 5506844515100971 4503599627370496 7036874417766401 140737488355328); [vm_compute; reflexivity | unfold fr, close, ctol, A02_c, A02_e; interval with (i_prec 80)]]. Qed.
Lemma d_A02_13r : rio_reads A02_c A02_e A02_lo A02_hi floor_volts ctol (Build_rio (Fin (357539307115111 / 140737488355328)) (Fin (5902958103587057 / 590295810358705651712)) (Fin (3715469692580659 / 1125899906842624)) (Fin (6 / 1)) (Fin (12 / 1)) true true true ((Fin (0 / 1)) :: (Fin (0 / 1)) :: (Fin (0 / 1)) :: (Fin (0 / 1)) :: (Fin (27 / 4)) :: (Fin (45 / 1)) :: nil)) (45 / 2).
Proof. apply (A02_rio_fin _ (357539307115111 / 140737488355328)); [reflexivity | apply (A02_q_lo 357539307115111 140737488355328 45 2); [vm_compute; reflexivity | unfold fr, ctol, A02_lo, A02_c, A02_e; interval with (i_prec 80)]]. Qed.
Lemma d_A02_21r : rio_reads A02_c A02_e A02_lo A02_hi floor_volts ctol (Build_rio (Fin (357539307115111 / 140737488355328)) (Fin (5 / 1)) (Fin (3715469692580659 / 1125899906842624)) (Fin (6 / 1)) (Fin (3715469692580659 / 281474976710656)) true true true ((Fin (0 / 1)) :: (Fin (0 / 1)) :: (Fin (0 / 1)) :: (Fin (0 / 1)) :: (Fin (27 / 4)) :: (Fin (45 / 1)) :: nil)) (45 / 2).
Proof. apply (A02_rio_fin _ (357539307115111 / 140737488355328)); [reflexivity | apply (A02_q_lo 357539307115111 140737488355328 45 2); [vm_compute; reflexivity | unfold fr, ctol, A02_lo, A02_c, A02_e; interval with (i_prec 80)]]. Qed.
Lemma d_A02_29r : rio_reads A02_c A02_e A02_lo A02_hi floor_volts ctol (Build_rio (Fin (357539307115111 / 140737488355328)) (Fin (5 / 1)) (Fin (8106479329266893 / 2251799813685248)) (Fin (6 / 1)) (Fin (12 / 1)) true true true ((Fin (0 / 1)) :: (Fin (0 / 1)) :: (Fin (0 / 1)) :: (Fin (0 / 1)) :: (Fin (27 / 4)) :: (Fin (45 / 1)) :: nil)) (45 / 2).
Proof. apply (A02_rio_fin _ (357539307115111 / 140737488355328)); [reflexivity | apply (A02_q_lo 357539307115111 140737488355328 45 2); [vm_compute; reflexivity | unfold fr, ctol, A02_lo, A02_c, A02_e; interval with (i_prec 80)]]. Qed.
Lemma d_A02_37r : rio_reads A02_c A02_e A02_lo A02_hi floor_volts ctol (Build_rio (Fin (8308476880671015 / 18014398509481984)) (Fin (5 / 1)) (Fin (3715469692580659 / 1125899906842624)) (Fin (0 / 1)) (Fin (12 / 1)) true true true ((Fin (0 / 1)) :: (Fin (0 / 1)) :: (Fin (0 / 1)) :: (Fin (0 / 1)) :: (Fin (27 / 4)) :: (Fin (45 / 1)) :: nil)) (145 / 1).
Proof. apply (A02_rio_fin _ (8308476880671015 / 18014398509481984)); [reflexivity | apply (A02_q_hi 8308476880671015 18014398509481984 145 1); [vm_compute; reflexivity | unfold fr, ctol, A02_hi, A02_c, A02_e; interval with (i_prec 80)]]. Qed.
Lemma d_A02_45r : rio_reads A02_c A02_e A02_lo A02_hi floor_volts ctol (Build_rio (Fin (357539307115111 / 140737488355328)) (Fin (5 / 1)) (Fin (3715469692580659 / 1125899906842624)) (Fin (6 / 1)) (Fin (12 / 1)) true true true (PInf :: (Fin (0 / 1)) :: (Fin (0 / 1)) :: (Fin (0 / 1)) :: (Fin (27 / 4)) :: (Fin (45 / 1)) :: nil)) (45 / 2).
Proof. apply (A02_rio_fin _ (357539307115111 / 140737488355328)); [reflexivity | apply (A02_q_lo 357539307115111 140737488355328 45 2); [vm_compute; reflexivity | unfold fr, ctol, A02_lo, A02_c, A02_e; interval with (i_prec 80)]]. Qed.
Lemma d_A02_53r : rio_reads A02_c A02_e A02_lo A02_hi floor_volts ctol (Build_rio (Fin (8308476880671015 / 18014398509481984)) (Fin (5 / 1)) (Fin (3715469692580659 / 1125899906842624)) (Fin (6 / 1)) (Fin (12 / 1)) true true true ((Fin (0 / 1)) :: (Fin (0 / 1)) :: (Fin (0 / 1)) :: (Fin (0 / 1)) :: (Fin (27 / 4)) :: (Fin (0 / 1)) :: nil)) (145 / 1).
Proof. apply (A02_rio_fin _ (8308476880671015 / 18014398509481984)); [reflexivity | apply (A02_q_hi 8308476880671015 18014398509481984 145 1); [vm_compute; reflexivity | unfold fr, ctol, A02_hi, A02_c, A02_e; interval with (i_prec 80)]]. Qed.
Lemma d_A02_64u : close ctol (357539307115111 / 140737488355328) (volts_A02 (1520714891776763 / 70368744177664)).
Proof. apply (A02_q_volts_lo 1520714891776763 70368744177664 357539307115111 140737488355328); [vm_compute; reflexivity | unfold fr, close, ctol, A02_lo, A02_hi, A02_c, A02_e; interval with (i_prec 80)]. Qed.
Lemma d_A02_76r : rio_reads A02_c A02_e A02_lo A02_hi floor_volts ctol (Build_rio (Fin (2560749175021749 / 4503599627370496)) (Fin (1153 / 256)) (Fin (3361 / 1024)) (Fin (0 / 1)) (Fin (12 / 1)) true true false ((Fin (1321 / 1024)) :: (Fin (1189 / 1024)) :: (Fin (2143 / 1024)) :: (Fin (79635 / 512)) :: (Fin (3727 / 1024)) :: (Fin (76311 / 1024)) :: nil)) (8118557462536569 / 70368744177664).
Proof. apply (A02_rio_fin _ (2560749175021749 / 4503599627370496)); [reflexivity | apply (A02_q_mid 2560749175021749 4503599627370496 8118557462536569 70368744177664); [vm_compute; reflexivity | unfold fr, close, ctol, A02_c, A02_e; interval with (i_prec 80)]]. Qed.
Lemma d_A02_89u : close ctol (167319289713503 / 281474976710656) (volts_A02 (7734004345272711 / 70368744177664)).
Proof. apply (A02_q_volts_mid 7734004345272711 70368744177664 167319289713503 281474976710656); [vm_compute; reflexivity | unfold fr, close, ctol, A02_lo, A02_hi, A02_c, A02_e; interval with (i_prec 80)]. Qed.
Lemma d_A02_102u : close ctol (8473145554320025 / 9007199254740992) (volts_A02 (585633174358021 / 8796093022208)).
Proof. apply (A02_q_volts_mid 585633174358021 8796093022208 8473145554320025 9007199254740992); [vm_compute; reflexivity | unfold fr, close, ctol, A02_lo, A02_hi, A02_c, A02_e; interval with (i_prec 80)]. Qed.
Lemma d_A02_115u : close ctol (7601232357920845 / 4503599627370496) (volts_A02 (1237258212908569 / 35184372088832)).
Proof. apply (A02_q_volts_mid 1237258212908569 35184372088832 7601232357920845 4503599627370496); [vm_compute; reflexivity | unfold fr, close, ctol, A02_lo, A02_hi, A02_c, A02_e; interval with (i_prec 80)]. Qed.
Lemma d_A02_128u : close ctol (5398693473690173 / 9007199254740992) (volts_A02 (3832226858477481 / 35184372088832)).
Proof. apply (A02_q_volts_mid 3832226858477481 35184372088832 5398693473690173 9007199254740992); [vm_compute; reflexivity | unfold fr, close, ctol, A02_lo, A02_hi, A02_c, A02_e; interval with (i_prec 80)]. Qed.
Lemma d_A02_140r : rio_reads A02_c A02_e A02_lo A02_hi floor_volts ctol (Build_rio (Fin (2542552557650785 / 2251799813685248)) (Fin (615 / 128)) (Fin (13915 / 1024)) (Fin (5795 / 1024)) (Fin (12 / 1)) true true true ((Fin (681 / 256)) :: (Fin (27 / 1024)) :: (Fin (931 / 1024)) :: (Fin (6505 / 128)) :: (Fin (4497 / 1024)) :: (Fin (6477 / 512)) :: nil)) (3838275549451577 / 70368744177664).
Proof. apply (A02_rio_fin _ (2542552557650785 / 2251799813685248)); [reflexivity | apply (A02_q_mid 2542552557650785 2251799813685248 3838275549451577 70368744177664); [vm_compute; reflexivity | unfold fr, close, ctol, A02_c, A02_e; interval with (i_prec 80)]]. Qed.
Lemma d_A02_153u : close ctol (4511434960787971 / 4503599627370496) (volts_A02 (4374254275903893 / 70368744177664)).
Proof. apply (A02_q_volts_mid 4374254275903893 70368744177664 4511434960787971 4503599627370496); [vm_compute; reflexivity | unfold fr, close, ctol, A02_lo, A02_hi, A02_c, A02_e; interval with (i_prec 80)]. Qed.
Lemma d_A02_166u : close ctol (8629645822244789 / 9007199254740992) (volts_A02 (2296180966369343 / 35184372088832)).
Proof. apply (A02_q_volts_mid 2296180966369343 35184372088832 8629645822244789 9007199254740992); [vm_compute; reflexivity | unfold fr, close, ctol, A02_lo, A02_hi, A02_c, A02_e; interval with (i_prec 80)]. Qed.
Lemma d_A02_179u : close ctol (119962118804579 / 140737488355328) (volts_A02 (2608829631977791 / 35184372088832)).
Proof. apply (A02_q_volts_mid 2608829631977791 35184372088832 119962118804579 140737488355328); [vm_compute; reflexivity | unfold fr, close, ctol, A02_lo, A02_hi, A02_c, A02_e; interval with (i_prec 80)]. Qed.
Lemma d_A02_192u : close ctol (3736187130282513 / 2251799813685248) (volts_A02 (2521151069651905 / 70368744177664)).
Proof. apply (A02_q_volts_mid 2521151069651905 70368744177664 3736187130282513 2251799813685248); [vm_compute; reflexivity | unfold fr, close, ctol, A02_lo, A02_hi, A02_c, A02_e; interval with (i_prec 80)]. Qed.
Lemma d_A02_204r : rio_reads A02_c A02_e A02_lo A02_hi floor_volts ctol (Build_rio (Fin (357539307115111 / 140737488355328)) (Fin (4421 / 1024)) (Fin (347 / 128)) (Fin (1289 / 256)) (Fin (1681 / 128)) true true true ((Fin (2251 / 1024)) :: (Fin (751 / 1024)) :: (Fin (2519 / 1024)) :: (Fin (6655 / 128)) :: (Fin (3069 / 512)) :: (Fin (61227 / 1024)) :: nil)) (45 / 2).
Proof. apply (A02_rio_fin _ (357539307115111 / 140737488355328)); [reflexivity | apply (A02_q_lo 357539307115111 140737488355328 45 2); [vm_compute; reflexivity | unfold fr, ctol, A02_lo, A02_c, A02_e; interval with (i_prec 80)]]. Qed.
Lemma d_A02_217u : close ctol (1137337505028589 / 2251799813685248) (volts_A02 (2309934948831027 / 17592186044416)).
Proof. apply (A02_q_volts_mid 2309934948831027 17592186044416 1137337505028589 2251799813685248); [vm_compute; reflexivity | unfold fr, close, ctol, A02_lo, A02_hi, A02_c, A02_e; interval with (i_prec 80)]. Qed.
Lemma d_A02_230u : close ctol (357539307115111 / 140737488355328) (volts_A02 (2654849611188359 / 140737488355328)).
Proof. apply (A02_q_volts_lo 2654849611188359 140737488355328 357539307115111 140737488355328); [vm_compute; reflexivity | unfold fr, close, ctol, A02_lo, A02_hi, A02_c, A02_e; interval with (i_prec 80)]. Qed.
Lemma d_A02_243u : close ctol (8685514091813801 / 18014398509481984) (volts_A02 (2430191399129999 / 17592186044416)).
Proof. apply (A02_q_volts_mid 2430191399129999 17592186044416 8685514091813801 18014398509481984); [vm_compute; reflexivity | unfold fr, close, ctol, A02_lo, A02_hi, A02_c, A02_e; interval with (i_prec 80)]. Qed.
Lemma d_A02_256u : close ctol (8507875843047011 / 18014398509481984) (volts_A02 (1242826523318057 / 8796093022208)).
Proof. apply (A02_q_volts_mid 1242826523318057 8796093022208 8507875843047011 18014398509481984); [vm_compute; reflexivity | unfold fr, close, ctol, A02_lo, A02_hi, A02_c, A02_e; interval with (i_prec 80)]. Qed.
Lemma d_A02_268r : rio_reads A02_c A02_e A02_lo A02_hi floor_volts ctol (Build_rio (Fin (8308476880671015 / 18014398509481984)) (Fin (5 / 1)) (Fin (3705 / 1024)) (Fin (1659 / 256)) (Fin (609 / 256)) true true true ((Fin (1251 / 512)) :: (Fin (1371 / 1024)) :: (Fin (1087 / 1024)) :: (Fin (10881 / 256)) :: (Fin (4239 / 512)) :: (Fin ((-7015) / 1024)) :: nil)) (145 / 1).
Proof. apply (A02_rio_fin _ (8308476880671015 / 18014398509481984)); [reflexivity | apply (A02_q_hi 8308476880671015 18014398509481984 145 1); [vm_compute; reflexivity | unfold fr, ctol, A02_hi, A02_c, A02_e; interval with (i_prec 80)]]. Qed.
Lemma d_A02_281u : close ctol (902400395992261 / 1125899906842624) (volts_A02 (697557752903225 / 8796093022208)).
Proof. apply (A02_q_volts_mid 697557752903225 8796093022208 902400395992261 1125899906842624); [vm_compute; reflexivity | unfold fr, close, ctol, A02_lo, A02_hi, A02_c, A02_e; interval with (i_prec 80)]. Qed.
Lemma d_A02_294u : close ctol (8308476880671015 / 18014398509481984) (volts_A02 (3909798097648385 / 17592186044416)).
Proof. apply (A02_q_volts_hi 3909798097648385 17592186044416 8308476880671015 18014398509481984); [vm_compute; reflexivity | unfold fr, close, ctol, A02_lo, A02_hi, A02_c, A02_e; interval with (i_prec 80)]. Qed.
Lemma d_A02_307u : close ctol (4097511980214787 / 4503599627370496) (volts_A02 (303685182492353 / 4398046511104)).
Proof. apply (A02_q_volts_mid 303685182492353 4398046511104 4097511980214787 4503599627370496); [vm_compute; reflexivity | unfold fr, close, ctol, A02_lo, A02_hi, A02_c, A02_e; interval with (i_prec 80)]. Qed.
Lemma d_A02_320u : close ctol (4779082063350821 / 2251799813685248) (volts_A02 (963422414968807 / 35184372088832)).
Proof. apply (A02_q_volts_mid 963422414968807 35184372088832 4779082063350821 2251799813685248); [vm_compute; reflexivity | unfold fr, close, ctol, A02_lo, A02_hi, A02_c, A02_e; interval with (i_prec 80)]. Qed.
Lemma d_A02_332r : rio_reads A02_c A02_e A02_lo A02_hi floor_volts ctol (Build_rio (Fin (6585552318872961 / 9007199254740992)) (Fin (4307 / 1024)) (Fin (797 / 256)) (Fin (6103 / 1024)) (Fin (13375 / 1024)) true true false ((Fin (697 / 1024)) :: (Fin (193 / 1024)) :: (Fin (379 / 128)) :: (Fin (11739 / 128)) :: (Fin (2311 / 512)) :: (Fin (80065 / 1024)) :: nil)) (1542331593979125 / 17592186044416).
Proof. apply (A02_rio_fin _ (6585552318872961 / 9007199254740992)); [reflexivity | apply (A02_q_mid 6585552318872961 9007199254740992 1542331593979125 17592186044416); [vm_compute; reflexivity | unfold fr, close, ctol, A02_c, A02_e; interval with (i_prec 80)]]. Qed.
Lemma d_A02_345u : close ctol (8308476880671015 / 18014398509481984) (volts_A02 (212 / 1)).
Proof. apply (A02_q_volts_hi 212 1 8308476880671015 18014398509481984); [vm_compute; reflexivity | unfold fr, close, ctol, A02_lo, A02_hi, A02_c, A02_e; interval with (i_prec 80)]. Qed.
Lemma d_A02_358u : close ctol (8308476880671015 / 18014398509481984) (volts_A02 (2252053970360161 / 549755813888)).
Proof. apply (A02_q_volts_hi 2252053970360161 549755813888 8308476880671015 18014398509481984); [vm_compute; reflexivity | unfold fr, close, ctol, A02_lo, A02_hi, A02_c, A02_e; interval with (i_prec 80)]. Qed.
Lemma d_A02_371u : close ctol (8308476880671015 / 18014398509481984) (volts_A02 (7619917187050265 / 35184372088832)).
Proof. apply (A02_q_volts_hi 7619917187050265 35184372088832 8308476880671015 18014398509481984); [vm_compute; reflexivity | unfold fr, close, ctol, A02_lo, A02_hi, A02_c, A02_e; interval with (i_prec 80)]. Qed.
Lemma d_A02_384u : close ctol (8309543335901645 / 18014398509481984) (volts_A02 (5101018957307339 / 35184372088832)).
Proof. apply (A02_q_volts_mid 5101018957307339 35184372088832 8309543335901645 18014398509481984); [vm_compute; reflexivity | unfold fr, close, ctol, A02_lo, A02_hi, A02_c, A02_e; interval with (i_prec 80)]. Qed.
Lemma d_A02_396r : rio_reads A02_c A02_e A02_lo A02_hi floor_volts ctol (Build_rio (Fin (357539307115111 / 140737488355328)) (Fin (5277 / 512)) (Fin (0 / 1)) (Fin (3189 / 512)) (Fin ((-12) / 1)) true false true ((Fin (1041 / 1024)) :: (Fin (417 / 1024)) :: (Fin (317 / 128)) :: (Fin (106375 / 1024)) :: (Fin (6327 / 1024)) :: (Fin (15885 / 512)) :: nil)) (45 / 2).
Proof. apply (A02_rio_fin _ (357539307115111 / 140737488355328)); [reflexivity | apply (A02_q_lo 357539307115111 140737488355328 45 2); [vm_compute; reflexivity | unfold fr, ctol, A02_lo, A02_c, A02_e; interval with (i_prec 80)]]. Qed.
Lemma d_A02_409u : close ctol (357539307115111 / 140737488355328) (volts_A02 ((-1232094087619795) / 140737488355328)).
Proof. apply (A02_q_volts_lo (-1232094087619795) 140737488355328 357539307115111 140737488355328); [vm_compute; reflexivity | unfold fr, close, ctol, A02_lo, A02_hi, A02_c, A02_e; interval with (i_prec 80)]. Qed.
Lemma d_A02_422u : close ctol (6364491010619943 / 4503599627370496) (volts_A02 (3004040216580547 / 70368744177664)).
Proof. apply (A02_q_volts_mid 3004040216580547 70368744177664 6364491010619943 4503599627370496); [vm_compute; reflexivity | unfold fr, close, ctol, A02_lo, A02_hi, A02_c, A02_e; interval with (i_prec 80)]. Qed.
Lemma d_A02_435u : close ctol (4248533997668919 / 9007199254740992) (volts_A02 (622276436311455 / 4398046511104)).
Proof. apply (A02_q_volts_mid 622276436311455 4398046511104 4248533997668919 9007199254740992); [vm_compute; reflexivity | unfold fr, close, ctol, A02_lo, A02_hi, A02_c, A02_e; interval with (i_prec 80)]. Qed.
Lemma d_A02_448u : close ctol (8308476880671015 / 18014398509481984) (volts_A02 (3427586166617125 / 8796093022208)).
Proof. apply (A02_q_volts_hi 3427586166617125 8796093022208 8308476880671015 18014398509481984); [vm_compute; reflexivity | unfold fr, close, ctol, A02_lo, A02_hi, A02_c, A02_e; interval with (i_prec 80)]. Qed.
Lemma d_A02_460r : rio_reads A02_c A02_e A02_lo A02_hi floor_volts ctol (Build_rio (Fin (8308476880671015 / 18014398509481984)) (Fin (11677 / 1024)) (Fin (1511 / 512)) (Fin (723 / 128)) (Fin (12243 / 1024)) true true true ((Fin (867 / 512)) :: (Fin (47 / 256)) :: (Fin (1469 / 1024)) :: (Fin (33053 / 1024)) :: (Fin (4267 / 1024)) :: (Fin (56329 / 1024)) :: nil)) (145 / 1).
Proof. apply (A02_rio_fin _ (8308476880671015 / 18014398509481984)); [reflexivity | apply (A02_q_hi 8308476880671015 18014398509481984 145 1); [vm_compute; reflexivity | unfold fr, ctol, A02_hi, A02_c, A02_e; interval with (i_prec 80)]]. Qed.
Lemma d_A02_473u : close ctol (4993606923771775 / 9007199254740992) (volts_A02 (8345876608238949 / 70368744177664)).
Proof. apply (A02_q_volts_mid 8345876608238949 70368744177664 4993606923771775 9007199254740992); [vm_compute; reflexivity | unfold fr, close, ctol, A02_lo, A02_hi, A02_c, A02_e; interval with (i_prec 80)]. Qed.
Lemma d_A02_486u : close ctol (6144928074361421 / 4503599627370496) (volts_A02 (6242884844205081 / 140737488355328)).
Proof. apply (A02_q_volts_mid 6242884844205081 140737488355328 6144928074361421 4503599627370496); [vm_compute; reflexivity | unfold fr, close, ctol, A02_lo, A02_hi, A02_c, A02_e; interval with (i_prec 80)]. Qed.
Lemma d_A02_499u : close ctol (8412979797550863 / 18014398509481984) (volts_A02 (9829241378567 / 68719476736)).
Proof. apply (A02_q_volts_mid 9829241378567 68719476736 8412979797550863 18014398509481984); [vm_compute; reflexivity | unfold fr, close, ctol, A02_lo, A02_hi, A02_c, A02_e; interval with (i_prec 80)]. Qed.
Lemma d_A02_512u : close ctol (357539307115111 / 140737488355328) (volts_A02 ((-156651652424873) / 70368744177664)).
Proof. apply (A02_q_volts_lo (-156651652424873) 70368744177664 357539307115111 140737488355328); [vm_compute; reflexivity | unfold fr, close, ctol, A02_lo, A02_hi, A02_c, A02_e; interval with (i_prec 80)]. Qed.
Lemma d_A02_524r : rio_reads A02_c A02_e A02_lo A02_hi floor_volts ctol (Build_rio (Fin (8668221790554311 / 9007199254740992)) (Fin (5 / 1)) (Fin (769 / 256)) (Fin (5255 / 1024)) (Fin (735 / 1024)) false true false ((Fin (1063 / 512)) :: (Fin (471 / 1024)) :: (Fin (2551 / 1024)) :: (Fin (38069 / 256)) :: (Fin (2221 / 512)) :: (Fin (9321 / 128)) :: nil)) (285628062894849 / 4398046511104).
Proof. apply (A02_rio_fin _ (8668221790554311 / 9007199254740992)); [reflexivity | apply (A02_q_mid 8668221790554311 9007199254740992 285628062894849 4398046511104); [vm_compute; reflexivity | unfold fr, close, ctol, A02_c, A02_e; interval with (i_prec 80)]]. Qed.
Lemma d_A02_537u : close ctol (2859986132130579 / 4503599627370496) (volts_A02 (7195587681725547 / 70368744177664)).
Proof. apply (A02_q_volts_mid 7195587681725547 70368744177664 2859986132130579 4503599627370496); [vm_compute; reflexivity | unfold fr, close, ctol, A02_lo, A02_hi, A02_c, A02_e; interval with (i_prec 80)]. Qed.
Lemma d_A02_550u : close ctol (5543642394293393 / 4503599627370496) (volts_A02 (3492941497768405 / 70368744177664)).
Proof. apply (A02_q_volts_mid 3492941497768405 70368744177664 5543642394293393 4503599627370496); [vm_compute; reflexivity | unfold fr, close, ctol, A02_lo, A02_hi, A02_c, A02_e; interval with (i_prec 80)]. Qed.
Lemma d_A02_563u : close ctol (2610143616254905 / 4503599627370496) (volts_A02 (7950934013350539 / 70368744177664)).
Proof. apply (A02_q_volts_mid 7950934013350539 70368744177664 2610143616254905 4503599627370496); [vm_compute; reflexivity | unfold fr, close, ctol, A02_lo, A02_hi, A02_c, A02_e; interval with (i_prec 80)]. Qed.
Lemma d_A02_576u : close ctol (6020499231759331 / 9007199254740992) (volts_A02 (6804273120635763 / 70368744177664)).
Proof. apply (A02_q_volts_mid 6804273120635763 70368744177664 6020499231759331 9007199254740992); [vm_compute; reflexivity | unfold fr, close, ctol, A02_lo, A02_hi, A02_c, A02_e; interval with (i_prec 80)]. Qed.
Lemma d_A02_588r : rio_reads A02_c A02_e A02_lo A02_hi floor_volts ctol (Build_rio (Fin (3595032188841939 / 4503599627370496)) (Fin (5287 / 1024)) (Fin (1 / 202402253307310618352495346718917307049556649764142118356901358027430339567995346891960383701437124495187077864316811911389808737385793476867013399940738509921517424276566361364466907742093216341239767678472745068562007483424692698618103355649159556340810056512358769552333414615230502532186327508646006263307707741093494784)) (Fin (6325 / 1024)) (Fin (1607 / 256)) true false false ((Fin (455 / 256)) :: (Fin (71 / 1024)) :: (Fin (1591 / 1024)) :: (Fin (35229 / 512)) :: (Fin (6089 / 1024)) :: (Fin (28999 / 512)) :: nil)) (5605162901133289 / 70368744177664).
Proof. apply (A02_rio_fin _ (3595032188841939 / 4503599627370496)); [reflexivity | apply (A02_q_mid 3595032188841939 4503599627370496 5605162901133289 70368744177664); [vm_compute; reflexivity | unfold fr, close, ctol, A02_c, A02_e; interval with (i_prec 80)]]. Qed.
Lemma d_A02_601u : close ctol (2195358967942595 / 2251799813685248) (volts_A02 (4505747705267873 / 70368744177664)).
Proof. apply (A02_q_volts_mid 4505747705267873 70368744177664 2195358967942595 2251799813685248); [vm_compute; reflexivity | unfold fr, close, ctol, A02_lo, A02_hi, A02_c, A02_e; interval with (i_prec 80)]. Qed.
Lemma d_A02_614u : close ctol (3458089686908601 / 4503599627370496) (volts_A02 (1461997058948843 / 17592186044416)).
Proof. apply (A02_q_volts_mid 1461997058948843 17592186044416 3458089686908601 4503599627370496); [vm_compute; reflexivity | unfold fr, close, ctol, A02_lo, A02_hi, A02_c, A02_e; interval with (i_prec 80)]. Qed.
Lemma d_A02_627u : close ctol (8202338403421167 / 9007199254740992) (volts_A02 (4854231494668753 / 70368744177664)).
Proof. apply (A02_q_volts_mid 4854231494668753 70368744177664 8202338403421167 9007199254740992); [vm_compute; reflexivity | unfold fr, close, ctol, A02_lo, A02_hi, A02_c, A02_e; interval with (i_prec 80)]. Qed.
Lemma d_A02_640u : close ctol (8955275021364387 / 18014398509481984) (volts_A02 (293795420006053 / 2199023255552)).
Proof. apply (A02_q_volts_mid 293795420006053 2199023255552 8955275021364387 18014398509481984); [vm_compute; reflexivity | unfold fr, close, ctol, A02_lo, A02_hi, A02_c, A02_e; interval with (i_prec 80)]. Qed.
Lemma d_A02_652r : rio_reads A02_c A02_e A02_lo A02_hi floor_volts ctol (Build_rio (Fin (8308476880671015 / 18014398509481984)) (Fin (5045 / 1024)) (Fin (3249 / 1024)) (Fin (6 / 1)) (Fin (5657 / 512)) true true false ((Fin (637 / 1024)) :: (Fin (333 / 512)) :: (Fin (143 / 128)) :: (Fin (41267 / 1024)) :: (Fin (2183 / 256)) :: (Fin (25985 / 1024)) :: nil)) (145 / 1).
Proof. apply (A02_rio_fin _ (8308476880671015 / 18014398509481984)); [reflexivity | apply (A02_q_hi 8308476880671015 18014398509481984 145 1); [vm_compute; reflexivity | unfold fr, ctol, A02_hi, A02_c, A02_e; interval with (i_prec 80)]]. Qed.
Lemma d_A02_665u : close ctol (4130618913301491 / 2251799813685248) (volts_A02 (4518896531532895 / 140737488355328)).
Proof. apply (A02_q_volts_mid 4518896531532895 140737488355328 4130618913301491 2251799813685248); [vm_compute; reflexivity | unfold fr, close, ctol, A02_lo, A02_hi, A02_c, A02_e; interval with (i_prec 80)]. Qed.
Lemma r_A21_453 : rio_reads A21_c A21_e A21_lo A21_hi floor_volts ctol (Build_rio (Fin (5629499534213121 / 1125899906842624)) (Fin (5 / 1)) (Fin (3715469692580659 / 1125899906842624)) (Fin (6 / 1)) (Fin ((-1) / 1)) true true true ((Fin (0 / 1)) :: (Fin (0 / 1)) :: (Fin (0 / 1)) :: (Fin (0 / 1)) :: (Fin (27 / 4)) :: (Fin (45 / 1)) :: nil)) (10 / 1).
Proof. apply (A21_rio_fin _ (5629499534213121 / 1125899906842624)); [reflexivity | apply (A21_q_lo 5629499534213121 1125899906842624 10 1); [vm_compute; reflexivity | unfold fr, ctol, A21_lo, A21_c, A21_e; interval with (i_prec 80)]]. Qed.
Lemma r_A21_471 : rio_reads A21_c A21_e A21_lo A21_hi floor_volts ctol (Build_rio (Fin (4978200711263905 / 2251799813685248)) (Fin (5 / 1)) (Fin (3715469692580659 / 1125899906842624)) (Fin (6 / 1)) (Fin (12 / 1)) true true false ((Fin (0 / 1)) :: (Fin (0 / 1)) :: (Fin (0 / 1)) :: (Fin (0 / 1)) :: (Fin (27 / 4)) :: (Fin (45 / 1)) :: nil)) (2814749767106561 / 281474976710656).
Proof. apply (A21_rio_fin _ (4978200711263905 / 2251799813685248)); [reflexivity | apply (A21_q_mid 4978200711263905 2251799813685248 2814749767106561 281474976710656); [vm_compute; reflexivity | unfold fr, close, ctol, A21_c, A21_e; interval with (i_prec 80)]]. Qed.
Lemma r_A21_487 : rio_reads A21_c A21_e A21_lo A21_hi floor_volts ctol (Build_rio (Fin (9065 / 4096)) (Fin (2589569785738035 / 562949953421312)) (Fin (3602879701896397 / 1125899906842624)) (Fin (0 / 1)) (Fin (7093169413108531 / 1125899906842624)) true true false ((Fin (0 / 1)) :: (Fin (0 / 1)) :: (Fin (0 / 1)) :: (Fin (120 / 1)) :: (Fin (27 / 4)) :: (Fin (45 / 1)) :: nil)) (10 / 1).
Proof. apply (A21_rio_fin _ (9065 / 4096)); [reflexivity | apply (A21_q_lo 9065 4096 10 1); [vm_compute; reflexivity | unfold fr, ctol, A21_lo, A21_c, A21_e; interval with (i_prec 80)]]. Qed.
Lemma r_A21_503 : rio_reads A21_c A21_e A21_lo A21_hi floor_volts ctol (Build_rio (Fin (65 / 256)) (Fin (0 / 1)) (Fin (4307 / 1024)) (Fin (12931 / 1024)) (Fin (2737 / 256)) true true false ((Fin (177 / 1024)) :: (Fin (181 / 512)) :: (Fin (1513 / 1024)) :: (Fin (44595 / 256)) :: (Fin (4281 / 1024)) :: (Fin ((-885) / 512)) :: nil)) (80 / 1).
Proof. apply (A21_rio_fin _ (65 / 256)); [reflexivity | apply (A21_q_hi 65 256 80 1); [vm_compute; reflexivity | unfold fr, ctol, A21_hi, A21_c, A21_e; interval with (i_prec 80)]]. Qed.
Lemma r_A21_519 : rio_reads A21_c A21_e A21_lo A21_hi floor_volts ctol (Build_rio (Fin (145 / 256)) (Fin (5 / 1)) (Fin (3715469692580659 / 1125899906842624)) (Fin (6 / 1)) (Fin (12 / 1)) true true true ((Fin (0 / 1)) :: (Fin (0 / 1)) :: (Fin (0 / 1)) :: (Fin (0 / 1)) :: (Fin (27 / 4)) :: (Fin (45 / 1)) :: nil)) (7472812397092517 / 140737488355328).
Proof. apply (A21_rio_fin _ (145 / 256)); [reflexivity | apply (A21_q_mid 145 256 7472812397092517 140737488355328); [vm_compute; reflexivity | unfold fr, close, ctol, A21_c, A21_e; interval with (i_prec 80)]]. Qed.
Lemma r_A21_535 : rio_reads A21_c A21_e A21_lo A21_hi floor_volts ctol (Build_rio (Fin (225 / 256)) (Fin (2247 / 512)) NInf (Fin (6 / 1)) (Fin (5105 / 512)) true true false ((Fin (959 / 1024)) :: (Fin (927 / 1024)) :: (Fin (1381 / 512)) :: (Fin (63919 / 512)) :: (Fin (7807 / 1024)) :: (Fin (100009 / 1024)) :: nil)) (4360592295133995 / 140737488355328).
Proof. apply (A21_rio_fin _ (225 / 256)); [reflexivity | apply (A21_q_mid 225 256 4360592295133995 140737488355328); [vm_compute; reflexivity | unfold fr, close, ctol, A21_c, A21_e; interval with (i_prec 80)]]. Qed.
Lemma r_A21_551 : rio_reads A21_c A21_e A21_lo A21_hi floor_volts ctol (Build_rio (Fin (305 / 256)) (Fin (1739 / 512)) NInf (Fin (3061 / 512)) (Fin (12985 / 1024)) false true true ((Fin (759 / 512)) :: (Fin (171 / 512)) :: (Fin (779 / 512)) :: (Fin (71869 / 512)) :: (Fin (1967 / 512)) :: (Fin (16157 / 256)) :: nil)) (1501549492692673 / 70368744177664).
Proof. apply (A21_rio_fin _ (305 / 256)); [reflexivity | apply (A21_q_mid 305 256 1501549492692673 70368744177664); [vm_compute; reflexivity | unfold fr, close, ctol, A21_c, A21_e; interval with (i_prec 80)]]. Qed.
Lemma r_A21_567 : rio_reads A21_c A21_e A21_lo A21_hi floor_volts ctol (Build_rio (Fin (385 / 256)) (Fin (5 / 1)) (Fin (3715469692580659 / 1125899906842624)) (Fin (6 / 1)) (Fin (12 / 1)) true true true ((Fin (0 / 1)) :: (Fin (0 / 1)) :: (Fin (0 / 1)) :: (Fin (0 / 1)) :: (Fin (27 / 4)) :: (Fin (45 / 1)) :: nil)) (564269276843047 / 35184372088832).
Proof. apply (A21_rio_fin _ (385 / 256)); [reflexivity | apply (A21_q_mid 385 256 564269276843047 35184372088832); [vm_compute; reflexivity | unfold fr, close, ctol, A21_c, A21_e; interval with (i_prec 80)]]. Qed.
Lemma r_A21_583 : rio_reads A21_c A21_e A21_lo A21_hi floor_volts ctol (Build_rio (Fin (465 / 256)) (Fin (1881 / 256)) (Fin (5745 / 1024)) (Fin (0 / 1)) (Fin (10163 / 1024)) false false true ((Fin (2607 / 1024)) :: (Fin (1843 / 1024)) :: (Fin (1257 / 1024)) :: (Fin (155289 / 1024)) :: (Fin (1113 / 256)) :: (Fin (39633 / 512)) :: nil)) (7162818083473007 / 562949953421312).
Proof. apply (A21_rio_fin _ (465 / 256)); [reflexivity | apply (A21_q_mid 465 256 7162818083473007 562949953421312); [vm_compute; reflexivity | unfold fr, close, ctol, A21_c, A21_e; interval with (i_prec 80)]]. Qed.
Lemma r_A21_599 : rio_reads A21_c A21_e A21_lo A21_hi floor_volts ctol (Build_rio (Fin (545 / 256)) (Fin (1 / 1)) (Fin (675 / 128)) (Fin (6 / 1)) (Fin (100000000000000001097906362944045541740492309677311846336810682903157585404911491537163328978494688899061249669721172515611590283743140088328307009198146046031271664502933027185697489699588559043338384466165001178426897626212945177628091195786707458122783970171784415105291802893207873272974885715430223118336 / 1)) true true true ((Fin (1401 / 512)) :: (Fin (63 / 64)) :: (Fin (379 / 128)) :: (Fin (5939 / 512)) :: (Fin (2945 / 512)) :: (Fin (45771 / 1024)) :: nil)) (2948011234025851 / 281474976710656).
Proof. apply (A21_rio_fin _ (545 / 256)); [reflexivity | apply (A21_q_mid 545 256 2948011234025851 281474976710656); [vm_compute; reflexivity | unfold fr, close, ctol, A21_c, A21_e; interval with (i_prec 80)]]. Qed.
Lemma r_A21_615 : rio_reads A21_c A21_e A21_lo A21_hi floor_volts ctol (Build_rio (Fin (625 / 256)) (Fin (5 / 1)) (Fin (3715469692580659 / 1125899906842624)) (Fin (6 / 1)) (Fin (12 / 1)) true true true ((Fin (0 / 1)) :: (Fin (0 / 1)) :: (Fin (0 / 1)) :: (Fin (0 / 1)) :: (Fin (27 / 4)) :: (Fin (45 / 1)) :: nil)) (10 / 1).
Proof. apply (A21_rio_fin _ (625 / 256)); [reflexivity | apply (A21_q_lo 625 256 10 1); [vm_compute; reflexivity | unfold fr, ctol, A21_lo, A21_c, A21_e; interval with (i_prec 80)]]. Qed.
Lemma r_A21_631 : rio_reads A21_c A21_e A21_lo A21_hi floor_volts ctol (Build_rio (Fin (705 / 256)) (Fin (661 / 128)) (Fin (2181 / 256)) (Fin (6 / 1)) (Fin (9983 / 1024)) true true true ((Fin (1023 / 512)) :: (Fin (1985 / 1024)) :: (Fin (1415 / 512)) :: (Fin (172229 / 1024)) :: (Fin (3835 / 1024)) :: (Fin ((-4283) / 1024)) :: nil)) (10 / 1).
Proof. apply (A21_rio_fin _ (705 / 256)); [reflexivity | apply (A21_q_lo 705 256 10 1); [vm_compute; reflexivity | unfold fr, ctol, A21_lo, A21_c, A21_e; interval with (i_prec 80)]]. Qed.
Lemma r_A21_647 : rio_reads A21_c A21_e A21_lo A21_hi floor_volts ctol (Build_rio (Fin (785 / 256)) (Fin (13569 / 1024)) (Fin (3715469692580659 / 1125899906842624)) NInf (Fin (5349 / 512)) false false false ((Fin (721 / 512)) :: (Fin (321 / 256)) :: (Fin (781 / 1024)) :: (Fin (49793 / 1024)) :: (Fin (4595 / 1024)) :: (Fin ((-8421) / 1024)) :: nil)) (10 / 1).
Proof. apply (A21_rio_fin _ (785 / 256)); [reflexivity | apply (A21_q_lo 785 256 10 1); [vm_compute; reflexivity | unfold fr, ctol, A21_lo, A21_c, A21_e; interval with (i_prec 80)]]. Qed.
Lemma r_A21_663 : rio_reads A21_c A21_e A21_lo A21_hi floor_volts ctol (Build_rio (Fin (865 / 256)) (Fin (5 / 1)) (Fin (3715469692580659 / 1125899906842624)) (Fin (6 / 1)) (Fin (12 / 1)) true true true ((Fin (0 / 1)) :: (Fin (0 / 1)) :: (Fin (0 / 1)) :: (Fin (0 / 1)) :: (Fin (27 / 4)) :: (Fin (45 / 1)) :: nil)) (10 / 1).
Proof. apply (A21_rio_fin _ (865 / 256)); [reflexivity | apply (A21_q_lo 865 256 10 1); [vm_compute; reflexivity | unfold fr, ctol, A21_lo, A21_c, A21_e; interval with (i_prec 80)]]. Qed.
Lemma r_A21_679 : rio_reads A21_c A21_e A21_lo A21_hi floor_volts ctol (Build_rio (Fin (945 / 256)) (Fin (5 / 1)) (Fin (1589 / 512)) (Fin (1483 / 256)) (Fin (12 / 1)) true false true ((Fin (2135 / 1024)) :: (Fin (155 / 1024)) :: (Fin (199 / 256)) :: (Fin (2201 / 128)) :: (Fin (6285 / 1024)) :: (Fin (7877 / 1024)) :: nil)) (10 / 1).
Proof. apply (A21_rio_fin _ (945 / 256)); [reflexivity | apply (A21_q_lo 945 256 10 1); [vm_compute; reflexivity | unfold fr, ctol, A21_lo, A21_c, A21_e; interval with (i_prec 80)]]. Qed.
Lemma r_A21_695 : rio_reads A21_c A21_e A21_lo A21_hi floor_volts ctol (Build_rio (Fin (1025 / 256)) (Fin (1387 / 256)) (Fin (3279 / 1024)) (Fin (1 / 1)) (Fin (871 / 64)) false true true ((Fin (2473 / 1024)) :: (Fin (347 / 256)) :: (Fin (1287 / 512)) :: (Fin (2099 / 64)) :: (Fin (151 / 32)) :: (Fin (8473 / 256)) :: nil)) (10 / 1).
Proof. apply (A21_rio_fin _ (1025 / 256)); [reflexivity | apply (A21_q_lo 1025 256 10 1); [vm_compute; reflexivity | unfold fr, ctol, A21_lo, A21_c, A21_e; interval with (i_prec 80)]]. Qed.
Lemma r_A21_711 : rio_reads A21_c A21_e A21_lo A21_hi floor_volts ctol (Build_rio (Fin (1105 / 256)) (Fin (5 / 1)) (Fin (3715469692580659 / 1125899906842624)) (Fin (6 / 1)) (Fin (12 / 1)) true true true ((Fin (0 / 1)) :: (Fin (0 / 1)) :: (Fin (0 / 1)) :: (Fin (0 / 1)) :: (Fin (27 / 4)) :: (Fin (45 / 1)) :: nil)) (10 / 1).
Proof. apply (A21_rio_fin _ (1105 / 256)); [reflexivity | apply (A21_q_lo 1105 256 10 1); [vm_compute; reflexivity | unfold fr, ctol, A21_lo, A21_c, A21_e; interval with (i_prec 80)]]. Qed.
Lemma r_A21_727 : rio_reads A21_c A21_e A21_lo A21_hi floor_volts ctol (Build_rio (Fin (1185 / 256)) (Fin (2331 / 512)) (Fin (723 / 256)) (Fin (1273 / 128)) (Fin (1501 / 128)) false true true ((Fin (2813 / 1024)) :: (Fin (95 / 64)) :: (Fin (917 / 512)) :: (Fin (79449 / 1024)) :: (Fin (3239 / 512)) :: (Fin ((-857) / 128)) :: nil)) (10 / 1).
Proof. apply (A21_rio_fin _ (1185 / 256)); [reflexivity | apply (A21_q_lo 1185 256 10 1); [vm_compute; reflexivity | unfold fr, ctol, A21_lo, A21_c, A21_e; interval with (i_prec 80)]]. Qed.
Lemma r_A21_743 : rio_reads A21_c A21_e A21_lo A21_hi floor_volts ctol (Build_rio (Fin (1265 / 256)) (Fin (5 / 1)) (Fin (9967 / 1024)) (Fin (1 / 202402253307310618352495346718917307049556649764142118356901358027430339567995346891960383701437124495187077864316811911389808737385793476867013399940738509921517424276566361364466907742093216341239767678472745068562007483424692698618103355649159556340810056512358769552333414615230502532186327508646006263307707741093494784)) (Fin (2711 / 256)) false true false ((Fin (953 / 1024)) :: (Fin (837 / 1024)) :: (Fin (247 / 256)) :: (Fin (137869 / 1024)) :: (Fin (5983 / 1024)) :: (Fin (6275 / 512)) :: nil)) (10 / 1).
Proof. apply (A21_rio_fin _ (1265 / 256)); [reflexivity | apply (A21_q_lo 1265 256 10 1); [vm_compute; reflexivity | unfold fr, ctol, A21_lo, A21_c, A21_e; interval with (i_prec 80)]]. Qed.
Lemma r_A21_759 : rio_reads A21_c A21_e A21_lo A21_hi floor_volts ctol (Build_rio (Fin (597924091934925 / 562949953421312)) (Fin (5 / 1)) (Fin (3715469692580659 / 1125899906842624)) (Fin (6 / 1)) (Fin (12 / 1)) true true true ((Fin (0 / 1)) :: (Fin (0 / 1)) :: (Fin (0 / 1)) :: (Fin (0 / 1)) :: (Fin (27 / 4)) :: (Fin (45 / 1)) :: nil)) (6914438966266385 / 281474976710656).
Proof. apply (A21_rio_fin _ (597924091934925 / 562949953421312)); [reflexivity | apply (A21_q_mid 597924091934925 562949953421312 6914438966266385 281474976710656); [vm_compute; reflexivity | unfold fr, close, ctol, A21_c, A21_e; interval with (i_prec 80)]]. Qed.
Lemma r_A21_775 : rio_reads A21_c A21_e A21_lo A21_hi floor_volts ctol (Build_rio (Fin (821088903107155 / 4503599627370496)) (Fin (5367 / 1024)) (Fin (723 / 256)) (Fin (1521 / 256)) (Fin (100000000000000001097906362944045541740492309677311846336810682903157585404911491537163328978494688899061249669721172515611590283743140088328307009198146046031271664502933027185697489699588559043338384466165001178426897626212945177628091195786707458122783970171784415105291802893207873272974885715430223118336 / 1)) true false false ((Fin (737 / 1024)) :: (Fin (205 / 128)) :: (Fin (721 / 512)) :: (Fin (5353 / 512)) :: (Fin (495 / 64)) :: (Fin (23221 / 1024)) :: nil)) (80 / 1).
Proof. apply (A21_rio_fin _ (821088903107155 / 4503599627370496)); [reflexivity | apply (A21_q_hi 821088903107155 4503599627370496 80 1); [vm_compute; reflexivity | unfold fr, ctol, A21_hi, A21_c, A21_e; interval with (i_prec 80)]]. Qed.
Lemma r_A21_791 : rio_reads A21_c A21_e A21_lo A21_hi floor_volts ctol (Build_rio (Fin (3735449656501911 / 2251799813685248)) (Fin (4847 / 1024)) (Fin (25 / 8)) (Fin (5399 / 1024)) (Fin (12 / 1)) true true true ((Fin (1475 / 512)) :: (Fin (217 / 512)) :: (Fin (2861 / 1024)) :: (Fin (189431 / 1024)) :: (Fin (1601 / 512)) :: (Fin (2505 / 64)) :: nil)) (8005494670029191 / 562949953421312).
Proof. apply (A21_rio_fin _ (3735449656501911 / 2251799813685248)); [reflexivity | apply (A21_q_mid 3735449656501911 2251799813685248 8005494670029191 562949953421312); [vm_compute; reflexivity | unfold fr, close, ctol, A21_c, A21_e; interval with (i_prec 80)]]. Qed.
Lemma r_A21_807 : rio_reads A21_c A21_e A21_lo A21_hi floor_volts ctol (Build_rio (Fin (1711581701444783 / 36893488147419103232)) (Fin (5 / 1)) (Fin (3715469692580659 / 1125899906842624)) (Fin (6 / 1)) (Fin (12 / 1)) true true true ((Fin (0 / 1)) :: (Fin (0 / 1)) :: (Fin (0 / 1)) :: (Fin (0 / 1)) :: (Fin (27 / 4)) :: (Fin (45 / 1)) :: nil)) (80 / 1).
Proof. apply (A21_rio_fin _ (1711581701444783 / 36893488147419103232)); [reflexivity | apply (A21_q_hi 1711581701444783 36893488147419103232 80 1); [vm_compute; reflexivity | unfold fr, ctol, A21_hi, A21_c, A21_e; interval with (i_prec 80)]]. Qed.
Lemma r_A21_828 : rio_reads A21_c A21_e A21_lo A21_hi floor_volts ctol (Build_rio (Fin (5244332063394851 / 18014398509481984)) (Fin (2547 / 512)) (Fin (3715469692580659 / 1125899906842624)) (Fin (2927 / 512)) (Fin (2491 / 256)) false true true ((Fin (545 / 512)) :: (Fin (93 / 512)) :: (Fin (787 / 512)) :: (Fin (178015 / 1024)) :: (Fin (4485 / 1024)) :: (Fin (99673 / 1024)) :: nil)) (80 / 1).
Proof. apply (A21_rio_fin _ (5244332063394851 / 18014398509481984)); [reflexivity | apply (A21_q_hi 5244332063394851 18014398509481984 80 1); [vm_compute; reflexivity | unfold fr, ctol, A21_hi, A21_c, A21_e; interval with (i_prec 80)]]. Qed.
Lemma d_A21_668u : close ctol (2489100355631953 / 1125899906842624) (volts_A21 ((-5) / 1)).
Proof. apply (A21_q_volts_lo (-5) 1 2489100355631953 1125899906842624); [vm_compute; reflexivity | unfold fr, close, ctol, A21_lo, A21_hi, A21_c, A21_e; interval with (i_prec 80)]. Qed.
Lemma d_A21_676u : close ctol (2489100355631953 / 1125899906842624) (volts_A21 (2 / 1)).
Proof. apply (A21_q_volts_lo 2 1 2489100355631953 1125899906842624); [vm_compute; reflexivity | unfold fr, close, ctol, A21_lo, A21_hi, A21_c, A21_e; interval with (i_prec 80)]. Qed.
Lemma d_A21_684u : close ctol (7303775102731699 / 18014398509481984) (volts_A21 (1000000000000000052504760255204420248704468581108159154915854115511802457988908195786371375080447864043704443832883878176942523235360430575644792184786706982848387200926575803737830233794788090059368953234970799945081119038967640880074652742780142494579258788820056842838115669472196386865459400540160 / 1)).
Proof. apply (A21_q_volts_hi 1000000000000000052504760255204420248704468581108159154915854115511802457988908195786371375080447864043704443832883878176942523235360430575644792184786706982848387200926575803737830233794788090059368953234970799945081119038967640880074652742780142494579258788820056842838115669472196386865459400540160 1 7303775102731699 18014398509481984); [vm_compute; reflexivity | unfold fr, close, ctol, A21_lo, A21_hi, A21_c, A21_e; interval with (i_prec 80)]. Qed.
Lemma d_A21_692u : close ctol (2489100355631953 / 1125899906842624) (volts_A21 (6032057205060441 / 6032057205060440848842124543157735677050252251748505781796615064961622344493727293370973578138265743708225425014400837164813540499979063179105919597766951022193355091707896034850684039059079180396788349106095584290087446076413771468940477241550670753145517602931224392424029547429993824129889235158145614364972941312)).
Proof. apply (A21_q_volts_lo 6032057205060441 6032057205060440848842124543157735677050252251748505781796615064961622344493727293370973578138265743708225425014400837164813540499979063179105919597766951022193355091707896034850684039059079180396788349106095584290087446076413771468940477241550670753145517602931224392424029547429993824129889235158145614364972941312 2489100355631953 1125899906842624); [vm_compute; reflexivity | unfold fr, close, ctol, A21_lo, A21_hi, A21_c, A21_e; interval with (i_prec 80)]. Qed.
Lemma d_A21_700u : close ctol (4617692528446043 / 9007199254740992) (volts_A21 (60 / 1)).
Proof. apply (A21_q_volts_mid 60 1 4617692528446043 9007199254740992); [vm_compute; reflexivity | unfold fr, close, ctol, A21_lo, A21_hi, A21_c, A21_e; interval with (i_prec 80)]. Qed.
Lemma d_A21_708u : close ctol (2489100355631953 / 1125899906842624) (volts_x A21_c A21_e A21_lo A21_hi NInf).
Proof. apply (corr_volts_ninf _ _ _ _ _ A21_admissible _ ctol_ok); unfold fr, close, ctol, A21_lo, A21_hi, A21_c, A21_e; interval with (i_prec 80). Qed.
Lemma d_A21_716u : close ctol (622275088400423 / 281474976710656) (volts_A21 (1407374884960655 / 140737488355328)).
Proof. apply (A21_q_volts_mid 1407374884960655 140737488355328 622275088400423 281474976710656); [vm_compute; reflexivity | unfold fr, close, ctol, A21_lo, A21_hi, A21_c, A21_e; interval with (i_prec 80)]. Qed.
Lemma d_A21_724u : close ctol (8581410673532487 / 18014398509481984) (volts_A21 (1154983950972601 / 17592186044416)).
Proof. apply (A21_q_volts_mid 1154983950972601 17592186044416 8581410673532487 18014398509481984); [vm_compute; reflexivity | unfold fr, close, ctol, A21_lo, A21_hi, A21_c, A21_e; interval with (i_prec 80)]. Qed.
Lemma d_A21_736r : rio_reads A21_c A21_e A21_lo A21_hi floor_volts ctol (Build_rio (Fin (503916285966137 / 1125899906842624)) (Fin (4785 / 1024)) (Fin (3199 / 1024)) (Fin (6 / 1)) (Fin (12 / 1)) true true true ((Fin (511 / 256)) :: (Fin (1771 / 1024)) :: (Fin (51 / 32)) :: (Fin (3109 / 512)) :: (Fin (4313 / 512)) :: (Fin ((-8549) / 512)) :: nil)) (4986965913238729 / 70368744177664).
Proof. apply (A21_rio_fin _ (503916285966137 / 1125899906842624)); [reflexivity | apply (A21_q_mid 503916285966137 1125899906842624 4986965913238729 70368744177664); [vm_compute; reflexivity | unfold fr, close, ctol, A21_c, A21_e; interval with (i_prec 80)]]. Qed.
Lemma d_A21_749u : close ctol (8223016987638753 / 18014398509481984) (volts_A21 (152125029673989 / 2199023255552)).
Proof. apply (A21_q_volts_mid 152125029673989 2199023255552 8223016987638753 18014398509481984); [vm_compute; reflexivity | unfold fr, close, ctol, A21_lo, A21_hi, A21_c, A21_e; interval with (i_prec 80)]. Qed.
Lemma d_A21_762u : close ctol (1561801353087105 / 1125899906842624) (volts_A21 (2492140727552655 / 140737488355328)).
Proof. apply (A21_q_volts_mid 2492140727552655 140737488355328 1561801353087105 1125899906842624); [vm_compute; reflexivity | unfold fr, close, ctol, A21_lo, A21_hi, A21_c, A21_e; interval with (i_prec 80)]. Qed.
Lemma d_A21_775u : close ctol (7829377881455537 / 18014398509481984) (volts_A21 (2584873417176693 / 35184372088832)).
Proof. apply (A21_q_volts_mid 2584873417176693 35184372088832 7829377881455537 18014398509481984); [vm_compute; reflexivity | unfold fr, close, ctol, A21_lo, A21_hi, A21_c, A21_e; interval with (i_prec 80)]. Qed.
Lemma d_A21_788u : close ctol (620671594683113 / 1125899906842624) (volts_A21 (1931297342421713 / 35184372088832)).
Proof. apply (A21_q_volts_mid 1931297342421713 35184372088832 620671594683113 1125899906842624); [vm_compute; reflexivity | unfold fr, close, ctol, A21_lo, A21_hi, A21_c, A21_e; interval with (i_prec 80)]. Qed.
Lemma d_A21_800r : rio_reads A21_c A21_e A21_lo A21_hi floor_volts ctol (Build_rio (Fin (7837096894075285 / 9007199254740992)) (Fin (4845 / 1024)) (Fin (2661 / 512)) (Fin (6 / 1)) (Fin (1311 / 128)) true false false ((Fin (1349 / 512)) :: (Fin (839 / 512)) :: (Fin (1043 / 512)) :: (Fin (45741 / 256)) :: (Fin (1303 / 256)) :: (Fin ((-6047) / 512)) :: nil)) (8829615901246263 / 281474976710656).
Proof. apply (A21_rio_fin _ (7837096894075285 / 9007199254740992)); [reflexivity | apply (A21_q_mid 7837096894075285 9007199254740992 8829615901246263 281474976710656); [vm_compute; reflexivity | unfold fr, close, ctol, A21_c, A21_e; interval with (i_prec 80)]]. Qed.
Lemma d_A21_813u : close ctol (4552805939085393 / 2251799813685248) (volts_A21 (6281022200752331 / 562949953421312)).
Proof. apply (A21_q_volts_mid 6281022200752331 562949953421312 4552805939085393 2251799813685248); [vm_compute; reflexivity | unfold fr, close, ctol, A21_lo, A21_hi, A21_c, A21_e; interval with (i_prec 80)]. Qed.
Lemma d_A21_826u : close ctol (8437078862045811 / 18014398509481984) (volts_A21 (2358508085218839 / 35184372088832)).
Proof. apply (A21_q_volts_mid 2358508085218839 35184372088832 8437078862045811 18014398509481984); [vm_compute; reflexivity | unfold fr, close, ctol, A21_lo, A21_hi, A21_c, A21_e; interval with (i_prec 80)]. Qed.
Lemma d_A21_839u : close ctol (2489100355631953 / 1125899906842624) (volts_A21 (3684027737758919 / 562949953421312)).
Proof. apply (A21_q_volts_lo 3684027737758919 562949953421312 2489100355631953 1125899906842624); [vm_compute; reflexivity | unfold fr, close, ctol, A21_lo, A21_hi, A21_c, A21_e; interval with (i_prec 80)]. Qed.
Lemma d_A21_852u : close ctol (6998823605945549 / 9007199254740992) (volts_A21 (2535802388709017 / 70368744177664)).
Proof. apply (A21_q_volts_mid 2535802388709017 70368744177664 6998823605945549 9007199254740992); [vm_compute; reflexivity | unfold fr, close, ctol, A21_lo, A21_hi, A21_c, A21_e; interval with (i_prec 80)]. Qed.
Lemma d_A21_864r : rio_reads A21_c A21_e A21_lo A21_hi floor_volts ctol (Build_rio (Fin (1534227177899389 / 2251799813685248)) (Fin (5 / 1)) (Fin (2749 / 1024)) (Fin (6419 / 1024)) (Fin (13483 / 1024)) false false false ((Fin (2569 / 1024)) :: (Fin (691 / 512)) :: (Fin (475 / 1024)) :: (Fin (177277 / 1024)) :: (Fin (1463 / 256)) :: (Fin (8481 / 128)) :: nil)) (2979132562728465 / 70368744177664).
Proof. apply (A21_rio_fin _ (1534227177899389 / 2251799813685248)); [reflexivity | apply (A21_q_mid 1534227177899389 2251799813685248 2979132562728465 70368744177664); [vm_compute; reflexivity | unfold fr, close, ctol, A21_c, A21_e; interval with (i_prec 80)]]. Qed.
Lemma d_A21_877u : close ctol (4481902734935539 / 4503599627370496) (volts_A21 (7488940775923881 / 281474976710656)).
Proof. apply (A21_q_volts_mid 7488940775923881 281474976710656 4481902734935539 4503599627370496); [vm_compute; reflexivity | unfold fr, close, ctol, A21_lo, A21_hi, A21_c, A21_e; interval with (i_prec 80)]. Qed.
Lemma d_A21_890u : close ctol (2757628392752217 / 2251799813685248) (volts_A21 (2903512780807797 / 140737488355328)).
Proof. apply (A21_q_volts_mid 2903512780807797 140737488355328 2757628392752217 2251799813685248); [vm_compute; reflexivity | unfold fr, close, ctol, A21_lo, A21_hi, A21_c, A21_e; interval with (i_prec 80)]. Qed.
Lemma d_A21_903u : close ctol (2489100355631953 / 1125899906842624) (volts_A21 (2596299219770989 / 281474976710656)).
Proof. apply (A21_q_volts_lo 2596299219770989 281474976710656 2489100355631953 1125899906842624); [vm_compute; reflexivity | unfold fr, close, ctol, A21_lo, A21_hi, A21_c, A21_e; interval with (i_prec 80)]. Qed.
Lemma d_A21_916u : close ctol (2697214037425379 / 2251799813685248) (volts_A21 (5966893180518971 / 281474976710656)).
Proof. apply (A21_q_volts_mid 5966893180518971 281474976710656 2697214037425379 2251799813685248); [vm_compute; reflexivity | unfold fr, close, ctol, A21_lo, A21_hi, A21_c, A21_e; interval with (i_prec 80)]. Qed.
Lemma d_A21_928r : rio_reads A21_c A21_e A21_lo A21_hi floor_volts ctol (Build_rio (Fin (2111748629491033 / 4503599627370496)) (Fin (8041 / 1024)) (Fin (1723 / 512)) (Fin (6 / 1)) (Fin (6589 / 512)) true true true ((Fin (1695 / 1024)) :: (Fin (425 / 1024)) :: (Fin (1599 / 1024)) :: (Fin (74475 / 512)) :: (Fin (1027 / 256)) :: (Fin (79931 / 1024)) :: nil)) (4710228520413477 / 70368744177664).
Proof. apply (A21_rio_fin _ (2111748629491033 / 4503599627370496)); [reflexivity | apply (A21_q_mid 2111748629491033 4503599627370496 4710228520413477 70368744177664); [vm_compute; reflexivity | unfold fr, close, ctol, A21_c, A21_e; interval with (i_prec 80)]]. Qed.
Lemma d_A21_941u : close ctol (5021325298109623 / 4503599627370496) (volts_A21 (1628733520825901 / 70368744177664)).
Proof. apply (A21_q_volts_mid 1628733520825901 70368744177664 5021325298109623 4503599627370496); [vm_compute; reflexivity | unfold fr, close, ctol, A21_lo, A21_hi, A21_c, A21_e; interval with (i_prec 80)]. Qed.
Lemma d_A21_954u : close ctol (8690654273819855 / 9007199254740992) (volts_A21 (121539599332837 / 4398046511104)).
Proof. apply (A21_q_volts_mid 121539599332837 4398046511104 8690654273819855 9007199254740992); [vm_compute; reflexivity | unfold fr, close, ctol, A21_lo, A21_hi, A21_c, A21_e; interval with (i_prec 80)]. Qed.
Lemma d_A21_967u : close ctol (1209960862749899 / 1125899906842624) (volts_A21 (3407847446130195 / 140737488355328)).
Proof. apply (A21_q_volts_mid 3407847446130195 140737488355328 1209960862749899 1125899906842624); [vm_compute; reflexivity | unfold fr, close, ctol, A21_lo, A21_hi, A21_c, A21_e; interval with (i_prec 80)]. Qed.
Lemma d_A21_980u : close ctol (6790890919141321 / 9007199254740992) (volts_A21 (1315660750239987 / 35184372088832)).
Proof. apply (A21_q_volts_mid 1315660750239987 35184372088832 6790890919141321 9007199254740992); [vm_compute; reflexivity | unfold fr, close, ctol, A21_lo, A21_hi, A21_c, A21_e; interval with (i_prec 80)]. Qed.
Lemma d_A21_992r : rio_reads A21_c A21_e A21_lo A21_hi floor_volts ctol (Build_rio (Fin (7303775102731699 / 18014398509481984)) (Fin (5 / 1)) (Fin (3111 / 1024)) (Fin (3341 / 512)) (Fin (6521 / 512)) true true true ((Fin (2559 / 1024)) :: (Fin (1351 / 1024)) :: (Fin (687 / 512)) :: (Fin (36215 / 256)) :: (Fin (3735 / 512)) :: (Fin (10421 / 256)) :: nil)) (80 / 1).
Proof. apply (A21_rio_fin _ (7303775102731699 / 18014398509481984)); [reflexivity | apply (A21_q_hi 7303775102731699 18014398509481984 80 1); [vm_compute; reflexivity | unfold fr, ctol, A21_hi, A21_c, A21_e; interval with (i_prec 80)]]. Qed.
Lemma d_A21_1005u : close ctol (5848871876690537 / 9007199254740992) (volts_A21 (3159990020176731 / 70368744177664)).
Proof. apply (A21_q_volts_mid 3159990020176731 70368744177664 5848871876690537 9007199254740992); [vm_compute; reflexivity | unfold fr, close, ctol, A21_lo, A21_hi, A21_c, A21_e; interval with (i_prec 80)]. Qed.
Lemma d_A21_1018u : close ctol (2489100355631953 / 1125899906842624) (volts_A21 (51886034413869 / 562949953421312)).
Proof. apply (A21_q_volts_lo 51886034413869 562949953421312 2489100355631953 1125899906842624); [vm_compute; reflexivity | unfold fr, close, ctol, A21_lo, A21_hi, A21_c, A21_e; interval with (i_prec 80)]. Qed.
Lemma d_A21_1031u : close ctol (6509475056116795 / 4503599627370496) (volts_A21 (592401281503585 / 35184372088832)).
Proof. apply (A21_q_volts_mid 592401281503585 35184372088832 6509475056116795 4503599627370496); [vm_compute; reflexivity | unfold fr, close, ctol, A21_lo, A21_hi, A21_c, A21_e; interval with (i_prec 80)]. Qed.
Lemma d_A21_1044u : close ctol (7303775102731699 / 18014398509481984) (volts_A21 (3040760716925865 / 17592186044416)).
Proof. apply (A21_q_volts_hi 3040760716925865 17592186044416 7303775102731699 18014398509481984); [vm_compute; reflexivity | unfold fr, close, ctol, A21_lo, A21_hi, A21_c, A21_e; interval with (i_prec 80)]. Qed.
Lemma d_A21_1056r : rio_reads A21_c A21_e A21_lo A21_hi floor_volts ctol (Build_rio (Fin (2489100355631953 / 1125899906842624)) (Fin (4965 / 1024)) (Fin (3715469692580659 / 1125899906842624)) (Fin (411 / 64)) (Fin (133 / 32)) true false true ((Fin (1219 / 512)) :: (Fin (207 / 512)) :: (Fin (567 / 512)) :: (Fin (20981 / 1024)) :: (Fin (4335 / 512)) :: (Fin (22379 / 256)) :: nil)) (10 / 1).
Proof. apply (A21_rio_fin _ (2489100355631953 / 1125899906842624)); [reflexivity | apply (A21_q_lo 2489100355631953 1125899906842624 10 1); [vm_compute; reflexivity | unfold fr, ctol, A21_lo, A21_c, A21_e; interval with (i_prec 80)]]. Qed.
Lemma d_A21_1069u : close ctol (2306616343278129 / 4503599627370496) (volts_A21 (8454258816619625 / 140737488355328)).
Proof. apply (A21_q_volts_mid 8454258816619625 140737488355328 2306616343278129 4503599627370496); [vm_compute; reflexivity | unfold fr, close, ctol, A21_lo, A21_hi, A21_c, A21_e; interval with (i_prec 80)]. Qed.
Lemma d_A21_1082u : close ctol (7303775102731699 / 18014398509481984) (volts_A21 (2285778318711089 / 17592186044416)).
Proof. apply (A21_q_volts_hi 2285778318711089 17592186044416 7303775102731699 18014398509481984); [vm_compute; reflexivity | unfold fr, close, ctol, A21_lo, A21_hi, A21_c, A21_e; interval with (i_prec 80)]. Qed.
Lemma d_A21_1095u : close ctol (2270014994052911 / 4503599627370496) (volts_A21 (2155421086200155 / 35184372088832)).
Proof. apply (A21_q_volts_mid 2155421086200155 35184372088832 2270014994052911 4503599627370496); [vm_compute; reflexivity | unfold fr, close, ctol, A21_lo, A21_hi, A21_c, A21_e; interval with (i_prec 80)]. Qed.
Lemma d_A21_1108u : close ctol (1077372143406549 / 2251799813685248) (volts_A21 (2297630408789311 / 35184372088832)).
Proof. apply (A21_q_volts_mid 2297630408789311 35184372088832 1077372143406549 2251799813685248); [vm_compute; reflexivity | unfold fr, close, ctol, A21_lo, A21_hi, A21_c, A21_e; interval with (i_prec 80)]. Qed.
Lemma d_A21_1120r : rio_reads A21_c A21_e A21_lo A21_hi floor_volts ctol (Build_rio (Fin (7093219139989601 / 9007199254740992)) (Fin (147 / 32)) (Fin (3715469692580659 / 1125899906842624)) (Fin (1 / 1)) (Fin (6569 / 512)) true false true ((Fin (189 / 64)) :: (Fin (923 / 1024)) :: (Fin (633 / 1024)) :: (Fin (5773 / 32)) :: (Fin (1553 / 256)) :: (Fin (25727 / 1024)) :: nil)) (4988984222850639 / 140737488355328).
Proof. apply (A21_rio_fin _ (7093219139989601 / 9007199254740992)); [reflexivity | apply (A21_q_mid 7093219139989601 9007199254740992 4988984222850639 140737488355328); [vm_compute; reflexivity | unfold fr, close, ctol, A21_c, A21_e; interval with (i_prec 80)]]. Qed.
Lemma d_A21_1133u : close ctol (8137167158587645 / 18014398509481984) (volts_A21 (2465520995030541 / 35184372088832)).
Proof. apply (A21_q_volts_mid 2465520995030541 35184372088832 8137167158587645 18014398509481984); [vm_compute; reflexivity | unfold fr, close, ctol, A21_lo, A21_hi, A21_c, A21_e; interval with (i_prec 80)]. Qed.
Lemma d_A21_1146u : close ctol (2054091153069171 / 4503599627370496) (volts_A21 (609104189580967 / 8796093022208)).
Proof. apply (A21_q_volts_mid 609104189580967 8796093022208 2054091153069171 4503599627370496); [vm_compute; reflexivity | unfold fr, close, ctol, A21_lo, A21_hi, A21_c, A21_e; interval with (i_prec 80)]. Qed.
Lemma d_A21_1159u : close ctol (1918874958159245 / 4503599627370496) (volts_A21 (1324274832767391 / 17592186044416)).
Proof. apply (A21_q_volts_mid 1324274832767391 17592186044416 1918874958159245 4503599627370496); [vm_compute; reflexivity | unfold fr, close, ctol, A21_lo, A21_hi, A21_c, A21_e; interval with (i_prec 80)]. Qed.
Lemma d_A21_1172u : close ctol (557804893417161 / 562949953421312) (volts_A21 (3764503352113179 / 140737488355328)).
Proof. apply (A21_q_volts_mid 3764503352113179 140737488355328 557804893417161 562949953421312); [vm_compute; reflexivity | unfold fr, close, ctol, A21_lo, A21_hi, A21_c, A21_e; interval with (i_prec 80)]. Qed.
Lemma d_A21_1184r : rio_reads A21_c A21_e A21_lo A21_hi floor_volts ctol (Build_rio (Fin (4628925143699841 / 4503599627370496)) (Fin (3815 / 512)) (Fin (227 / 64)) (Fin (353 / 64)) (Fin (11297 / 1024)) true true true ((Fin (955 / 512)) :: (Fin (581 / 1024)) :: (Fin (2919 / 1024)) :: (Fin (118619 / 1024)) :: (Fin (3949 / 512)) :: (Fin (95663 / 1024)) :: nil)) (3599189084707059 / 140737488355328).
Proof. apply (A21_rio_fin _ (4628925143699841 / 4503599627370496)); [reflexivity | apply (A21_q_mid 4628925143699841 4503599627370496 3599189084707059 140737488355328); [vm_compute; reflexivity | unfold fr, close, ctol, A21_c, A21_e; interval with (i_prec 80)]]. Qed.
Lemma d_A21_1197u : close ctol (8073485012668615 / 18014398509481984) (volts_A21 (2489384924749623 / 35184372088832)).
Proof. apply (A21_q_volts_mid 2489384924749623 35184372088832 8073485012668615 18014398509481984); [vm_compute; reflexivity | unfold fr, close, ctol, A21_lo, A21_hi, A21_c, A21_e; interval with (i_prec 80)]. Qed.
Lemma d_A21_1210u : close ctol (5094578936366871 / 9007199254740992) (volts_A21 (3742840713160109 / 70368744177664)).
Proof. apply (A21_q_volts_mid 3742840713160109 70368744177664 5094578936366871 9007199254740992); [vm_compute; reflexivity | unfold fr, close, ctol, A21_lo, A21_hi, A21_c, A21_e; interval with (i_prec 80)]. Qed.
Lemma d_A21_1223u : close ctol (6105612439325153 / 9007199254740992) (volts_A21 (2997865023124249 / 70368744177664)).
Proof. apply (A21_q_volts_mid 2997865023124249 70368744177664 6105612439325153 9007199254740992); [vm_compute; reflexivity | unfold fr, close, ctol, A21_lo, A21_hi, A21_c, A21_e; interval with (i_prec 80)]. Qed.
Lemma d_A21_1236u : close ctol (2489100355631953 / 1125899906842624) (volts_A21 (1734553350824207 / 1125899906842624)).
Proof. apply (A21_q_volts_lo 1734553350824207 1125899906842624 2489100355631953 1125899906842624); [vm_compute; reflexivity | unfold fr, close, ctol, A21_lo, A21_hi, A21_c, A21_e; interval with (i_prec 80)]. Qed.
Lemma d_A21_1248r : rio_reads A21_c A21_e A21_lo A21_hi floor_volts ctol (Build_rio (Fin (4730660576532311 / 9007199254740992)) (Fin (9171 / 1024)) (Fin (181 / 64)) (Fin (3141 / 512)) (Fin (2979 / 256)) true false true ((Fin (479 / 512)) :: (Fin (1019 / 1024)) :: (Fin (319 / 256)) :: (Fin (44511 / 512)) :: (Fin (5189 / 1024)) :: (Fin (21209 / 256)) :: nil)) (512356223069433 / 8796093022208).
Proof. apply (A21_rio_fin _ (4730660576532311 / 9007199254740992)); [reflexivity | apply (A21_q_mid 4730660576532311 9007199254740992 512356223069433 8796093022208); [vm_compute; reflexivity | unfold fr, close, ctol, A21_c, A21_e; interval with (i_prec 80)]]. Qed.
Lemma d_A21_1261u : close ctol (7303775102731699 / 18014398509481984) (volts_A21 (3231565397249539 / 17592186044416)).
Proof. apply (A21_q_volts_hi 3231565397249539 17592186044416 7303775102731699 18014398509481984); [vm_compute; reflexivity | unfold fr, close, ctol, A21_lo, A21_hi, A21_c, A21_e; interval with (i_prec 80)]. Qed.
Lemma d_A21_1274u : close ctol (8225464000184869 / 18014398509481984) (volts_A21 (2433112762319183 / 35184372088832)).
Proof. apply (A21_q_volts_mid 2433112762319183 35184372088832 8225464000184869 18014398509481984); [vm_compute; reflexivity | unfold fr, close, ctol, A21_lo, A21_hi, A21_c, A21_e; interval with (i_prec 80)]. Qed.
Lemma d_A21_1287u : close ctol (4965484824930715 / 4503599627370496) (volts_A21 (6604870974674651 / 281474976710656)).
Proof. apply (A21_q_volts_mid 6604870974674651 281474976710656 4965484824930715 4503599627370496); [vm_compute; reflexivity | unfold fr, close, ctol, A21_lo, A21_hi, A21_c, A21_e; interval with (i_prec 80)]. Qed.
Lemma d_A21_1300u : close ctol (5489736846227315 / 9007199254740992) (volts_A21 (1707638539959661 / 35184372088832)).
Proof. apply (A21_q_volts_mid 1707638539959661 35184372088832 5489736846227315 9007199254740992); [vm_compute; reflexivity | unfold fr, close, ctol, A21_lo, A21_hi, A21_c, A21_e; interval with (i_prec 80)]. Qed.
Lemma d_A21_1312r : rio_reads A21_c A21_e A21_lo A21_hi floor_volts ctol (Build_rio (Fin (821139460438941 / 562949953421312)) (Fin (1 / 202402253307310618352495346718917307049556649764142118356901358027430339567995346891960383701437124495187077864316811911389808737385793476867013399940738509921517424276566361364466907742093216341239767678472745068562007483424692698618103355649159556340810056512358769552333414615230502532186327508646006263307707741093494784)) (Fin (3567 / 1024)) (Fin (5902958103587057 / 590295810358705651712)) (Fin (12 / 1)) true true true ((Fin (1469 / 1024)) :: (Fin (1805 / 1024)) :: (Fin (853 / 1024)) :: (Fin (12405 / 128)) :: (Fin (9037 / 1024)) :: (Fin (15467 / 512)) :: nil)) (585814171385853 / 35184372088832).
Proof. apply (A21_rio_fin _ (821139460438941 / 562949953421312)); [reflexivity | apply (A21_q_mid 821139460438941 562949953421312 585814171385853 35184372088832); [vm_compute; reflexivity | unfold fr, close, ctol, A21_c, A21_e; interval with (i_prec 80)]]. Qed.
Lemma d_A21_1325u : close ctol (2087275638756959 / 4503599627370496) (volts_A21 (298626619442571 / 4398046511104)).
Proof. apply (A21_q_volts_mid 298626619442571 4398046511104 2087275638756959 4503599627370496); [vm_compute; reflexivity | unfold fr, close, ctol, A21_lo, A21_hi, A21_c, A21_e; interval with (i_prec 80)]. Qed.
Lemma r_A41_854 : rio_reads A41_c A41_e A41_lo A41_hi floor_volts ctol (Build_rio (Fin (5854679515581645 / 2251799813685248)) (Fin (2589569785738035 / 562949953421312)) (Fin (3 / 1)) (Fin (11 / 2)) (Fin (21 / 2)) true true true ((Fin (3 / 2)) :: (Fin (3602879701896397 / 4503599627370496)) :: (Fin (2 / 1)) :: (Fin (90 / 1)) :: (Fin (27 / 4)) :: (Fin (70 / 1)) :: nil)) (5654510174853277 / 1125899906842624).
Proof. apply (A41_rio_fin _ (5854679515581645 / 2251799813685248)); [reflexivity | apply (A41_q_mid 5854679515581645 2251799813685248 5654510174853277 1125899906842624); [vm_compute; reflexivity | unfold fr, close, ctol, A41_c, A41_e; interval with (i_prec 80)]]. Qed.
Lemma r_A41_887 : rio_reads A41_c A41_e A41_lo A41_hi floor_volts ctol (Build_rio (Fin (6491044311201869 / 18014398509481984)) (Fin (5 / 1)) (Fin (3 / 1)) (Fin (6 / 1)) (Fin (12 / 1)) true true true ((Fin (0 / 1)) :: (Fin (0 / 1)) :: (Fin (0 / 1)) :: (Fin (0 / 1)) :: (Fin (27 / 4)) :: (Fin (45 / 1)) :: nil)) (35 / 1).
Proof. apply (A41_rio_fin _ (6491044311201869 / 18014398509481984)); [reflexivity | apply (A41_q_hi 6491044311201869 18014398509481984 35 1); [vm_compute; reflexivity | unfold fr, ctol, A41_hi, A41_c, A41_e; interval with (i_prec 80)]]. Qed.
Lemma r_A41_903 : rio_reads A41_c A41_e A41_lo A41_hi floor_volts ctol (Build_rio (Fin (1475 / 4096)) (Fin (5 / 1)) (Fin (3715469692580659 / 1125899906842624)) (Fin (6 / 1)) (Fin (12 / 1)) true true true ((Fin (2 / 1)) :: (Fin (0 / 1)) :: (Fin (0 / 1)) :: (Fin (0 / 1)) :: (Fin (27 / 4)) :: (Fin (45 / 1)) :: nil)) (35 / 1).
Proof. apply (A41_rio_fin _ (1475 / 4096)); [reflexivity | apply (A41_q_hi 1475 4096 35 1); [vm_compute; reflexivity | unfold fr, ctol, A41_hi, A41_c, A41_e; interval with (i_prec 80)]]. Qed.
Lemma r_A41_919 : rio_reads A41_c A41_e A41_lo A41_hi floor_volts ctol (Build_rio (Fin (25 / 256)) (Fin (5 / 1)) (Fin (3715469692580659 / 1125899906842624)) (Fin (6 / 1)) (Fin (12 / 1)) true true true ((Fin (0 / 1)) :: (Fin (0 / 1)) :: (Fin (0 / 1)) :: (Fin (0 / 1)) :: (Fin (27 / 4)) :: (Fin (45 / 1)) :: nil)) (35 / 1).
Proof. apply (A41_rio_fin _ (25 / 256)); [reflexivity | apply (A41_q_hi 25 256 35 1); [vm_compute; reflexivity | unfold fr, ctol, A41_hi, A41_c, A41_e; interval with (i_prec 80)]]. Qed.
Lemma r_A41_935 : rio_reads A41_c A41_e A41_lo A41_hi floor_volts ctol (Build_rio (Fin (105 / 256)) (Fin (5 / 1)) (Fin (4145 / 1024)) (Fin (6 / 1)) (Fin (6227 / 512)) true true true ((Fin (2749 / 1024)) :: (Fin (121 / 512)) :: (Fin (419 / 256)) :: (Fin (77631 / 1024)) :: (Fin (2549 / 512)) :: (Fin (16879 / 256)) :: nil)) (8674478803071743 / 281474976710656).
Proof. apply (A41_rio_fin _ (105 / 256)); [reflexivity | apply (A41_q_mid 105 256 8674478803071743 281474976710656); [vm_compute; reflexivity | unfold fr, close, ctol, A41_c, A41_e; interval with (i_prec 80)]]. Qed.
Lemma r_A41_951 : rio_reads A41_c A41_e A41_lo A41_hi floor_volts ctol (Build_rio (Fin (185 / 256)) (Fin (5 / 1)) (Fin (1705 / 512)) (Fin (1427 / 512)) (Fin (1479 / 128)) true true true ((Fin (15 / 64)) :: (Fin (1343 / 1024)) :: (Fin (585 / 512)) :: (Fin (23049 / 256)) :: (Fin (6791 / 1024)) :: (Fin (22551 / 1024)) :: nil)) (4972677011133987 / 281474976710656).
Proof. apply (A41_rio_fin _ (185 / 256)); [reflexivity | apply (A41_q_mid 185 256 4972677011133987 281474976710656); [vm_compute; reflexivity | unfold fr, close, ctol, A41_c, A41_e; interval with (i_prec 80)]]. Qed.
Lemma r_A41_967 : rio_reads A41_c A41_e A41_lo A41_hi floor_volts ctol (Build_rio (Fin (265 / 256)) (Fin (5 / 1)) (Fin (3715469692580659 / 1125899906842624)) (Fin (6 / 1)) (Fin (12 / 1)) true true true ((Fin (0 / 1)) :: (Fin (0 / 1)) :: (Fin (0 / 1)) :: (Fin (0 / 1)) :: (Fin (27 / 4)) :: (Fin (45 / 1)) :: nil)) (3493518206862853 / 281474976710656).
Proof. apply (A41_rio_fin _ (265 / 256)); [reflexivity | apply (A41_q_mid 265 256 3493518206862853 281474976710656); [vm_compute; reflexivity | unfold fr, close, ctol, A41_c, A41_e; interval with (i_prec 80)]]. Qed.
Lemma r_A41_983 : rio_reads A41_c A41_e A41_lo A41_hi floor_volts ctol (Build_rio (Fin (345 / 256)) (Fin (2653 / 512)) (Fin (1765 / 512)) (Fin (1321 / 256)) (Fin (12 / 1)) false false true ((Fin (1299 / 512)) :: (Fin (37 / 256)) :: (Fin (1853 / 1024)) :: (Fin (21247 / 256)) :: (Fin (4185 / 1024)) :: (Fin (37593 / 512)) :: nil)) (2695915517697937 / 281474976710656).
Proof. apply (A41_rio_fin _ (345 / 256)); [reflexivity | apply (A41_q_mid 345 256 2695915517697937 281474976710656); [vm_compute; reflexivity | unfold fr, close, ctol, A41_c, A41_e; interval with (i_prec 80)]]. Qed.
Lemma r_A41_999 : rio_reads A41_c A41_e A41_lo A41_hi floor_volts ctol (Build_rio (Fin (425 / 256)) (Fin (4791 / 1024)) (Fin (3363 / 1024)) (Fin (5902958103587057 / 590295810358705651712)) (Fin (12847 / 1024)) true false true ((Fin (841 / 512)) :: (Fin (1269 / 1024)) :: (Fin (453 / 1024)) :: (Fin (8343 / 64)) :: (Fin (7137 / 1024)) :: (Fin (90807 / 1024)) :: nil)) (8785985131466385 / 1125899906842624).
Proof. apply (A41_rio_fin _ (425 / 256)); [reflexivity | apply (A41_q_mid 425 256 8785985131466385 1125899906842624); [vm_compute; reflexivity | unfold fr, close, ctol, A41_c, A41_e; interval with (i_prec 80)]]. Qed.
Lemma r_A41_1015 : rio_reads A41_c A41_e A41_lo A41_hi floor_volts ctol (Build_rio (Fin (505 / 256)) (Fin (5 / 1)) (Fin (3715469692580659 / 1125899906842624)) (Fin (6 / 1)) (Fin (12 / 1)) true true true ((Fin (0 / 1)) :: (Fin (0 / 1)) :: (Fin (0 / 1)) :: (Fin (0 / 1)) :: (Fin (27 / 4)) :: (Fin (45 / 1)) :: nil)) (7416624628680549 / 1125899906842624).
Proof. apply (A41_rio_fin _ (505 / 256)); [reflexivity | apply (A41_q_mid 505 256 7416624628680549 1125899906842624); [vm_compute; reflexivity | unfold fr, close, ctol, A41_c, A41_e; interval with (i_prec 80)]]. Qed.
Lemma r_A41_1031 : rio_reads A41_c A41_e A41_lo A41_hi floor_volts ctol (Build_rio (Fin (585 / 256)) (Fin (2635 / 512)) (Fin (1413 / 512)) (Fin (6 / 1)) (Fin (14131 / 1024)) true false true ((Fin (311 / 128)) :: (Fin (1123 / 1024)) :: (Fin (1549 / 1024)) :: (Fin (5143 / 32)) :: (Fin (8449 / 1024)) :: (Fin (17645 / 512)) :: nil)) (6418977095475571 / 1125899906842624).
Proof. apply (A41_rio_fin _ (585 / 256)); [reflexivity | apply (A41_q_mid 585 256 6418977095475571 1125899906842624); [vm_compute; reflexivity | unfold fr, close, ctol, A41_c, A41_e; interval with (i_prec 80)]]. Qed.
Lemma r_A41_1047 : rio_reads A41_c A41_e A41_lo A41_hi floor_volts ctol (Build_rio (Fin (665 / 256)) (Fin (5283 / 1024)) (Fin (8185 / 1024)) (Fin (2671 / 512)) (Fin (2881 / 256)) true true true ((Fin (793 / 512)) :: (Fin (53 / 512)) :: (Fin (1387 / 512)) :: (Fin (23969 / 256)) :: (Fin (3153 / 512)) :: (Fin (3523 / 512)) :: nil)) (5659522156841377 / 1125899906842624).
Proof. apply (A41_rio_fin _ (665 / 256)); [reflexivity | apply (A41_q_mid 665 256 5659522156841377 1125899906842624); [vm_compute; reflexivity | unfold fr, close, ctol, A41_c, A41_e; interval with (i_prec 80)]]. Qed.
Lemma r_A41_1063 : rio_reads A41_c A41_e A41_lo A41_hi floor_volts ctol (Build_rio (Fin (375 / 128)) (Fin (5 / 1)) (Fin (3715469692580659 / 1125899906842624)) (Fin (6 / 1)) (Fin (12 / 1)) true true true ((Fin (0 / 1)) :: (Fin (0 / 1)) :: (Fin (0 / 1)) :: (Fin (0 / 1)) :: (Fin (27 / 4)) :: (Fin (45 / 1)) :: nil)) (9 / 2).
Proof. apply (A41_rio_fin _ (375 / 128)); [reflexivity | apply (A41_q_lo 375 128 9 2); [vm_compute; reflexivity | unfold fr, ctol, A41_lo, A41_c, A41_e; interval with (i_prec 80)]]. Qed.
Lemma r_A41_1079 : rio_reads A41_c A41_e A41_lo A41_hi floor_volts ctol (Build_rio (Fin (415 / 128)) (Fin (595 / 128)) (Fin (449 / 128)) (Fin (2907 / 512)) NInf true true true ((Fin (279 / 512)) :: (Fin (285 / 256)) :: (Fin (979 / 1024)) :: (Fin (36965 / 256)) :: (Fin (1957 / 512)) :: (Fin (45679 / 1024)) :: nil)) (9 / 2).
Proof. apply (A41_rio_fin _ (415 / 128)); [reflexivity | apply (A41_q_lo 415 128 9 2); [vm_compute; reflexivity | unfold fr, ctol, A41_lo, A41_c, A41_e; interval with (i_prec 80)]]. Qed.
Lemma r_A41_1095 : rio_reads A41_c A41_e A41_lo A41_hi floor_volts ctol (Build_rio (Fin (455 / 128)) (Fin (5629 / 1024)) (Fin (4001 / 512)) (Fin (1519 / 256)) (Fin (11771 / 1024)) true true true ((Fin (727 / 1024)) :: (Fin (1847 / 1024)) :: (Fin (691 / 1024)) :: (Fin (56331 / 512)) :: (Fin (1361 / 256)) :: (Fin (30119 / 1024)) :: nil)) (9 / 2).
Proof. apply (A41_rio_fin _ (455 / 128)); [reflexivity | apply (A41_q_lo 455 128 9 2); [vm_compute; reflexivity | unfold fr, ctol, A41_lo, A41_c, A41_e; interval with (i_prec 80)]]. Qed.
Lemma r_A41_1111 : rio_reads A41_c A41_e A41_lo A41_hi floor_volts ctol (Build_rio (Fin (495 / 128)) (Fin (5 / 1)) (Fin (3715469692580659 / 1125899906842624)) (Fin (6 / 1)) (Fin (12 / 1)) true true true ((Fin (0 / 1)) :: (Fin (0 / 1)) :: (Fin (0 / 1)) :: (Fin (0 / 1)) :: (Fin (27 / 4)) :: (Fin (45 / 1)) :: nil)) (9 / 2).
Proof. apply (A41_rio_fin _ (495 / 128)); [reflexivity | apply (A41_q_lo 495 128 9 2); [vm_compute; reflexivity | unfold fr, ctol, A41_lo, A41_c, A41_e; interval with (i_prec 80)]]. Qed.
Lemma r_A41_1127 : rio_reads A41_c A41_e A41_lo A41_hi floor_volts ctol (Build_rio (Fin (535 / 128)) (Fin (699 / 128)) (Fin (3715469692580659 / 1125899906842624)) (Fin (5953 / 1024)) (Fin (100000000000000001097906362944045541740492309677311846336810682903157585404911491537163328978494688899061249669721172515611590283743140088328307009198146046031271664502933027185697489699588559043338384466165001178426897626212945177628091195786707458122783970171784415105291802893207873272974885715430223118336 / 1)) true false false ((Fin (1447 / 512)) :: (Fin (1035 / 1024)) :: (Fin (2445 / 1024)) :: (Fin (603 / 512)) :: (Fin (1041 / 128)) :: (Fin (1043 / 512)) :: nil)) (9 / 2).
Proof. apply (A41_rio_fin _ (535 / 128)); [reflexivity | apply (A41_q_lo 535 128 9 2); [vm_compute; reflexivity | unfold fr, ctol, A41_lo, A41_c, A41_e; interval with (i_prec 80)]]. Qed.
Lemma r_A41_1143 : rio_reads A41_c A41_e A41_lo A41_hi floor_volts ctol (Build_rio (Fin (575 / 128)) (Fin (2701 / 512)) (Fin (3095 / 1024)) (Fin (313 / 64)) (Fin (12 / 1)) true true true ((Fin (2505 / 1024)) :: (Fin (669 / 1024)) :: (Fin (493 / 1024)) :: (Fin (7717 / 64)) :: (Fin (5425 / 1024)) :: (Fin (28729 / 512)) :: nil)) (9 / 2).
Proof. apply (A41_rio_fin _ (575 / 128)); [reflexivity | apply (A41_q_lo 575 128 9 2); [vm_compute; reflexivity | unfold fr, ctol, A41_lo, A41_c, A41_e; interval with (i_prec 80)]]. Qed.
Lemma r_A41_1159 : rio_reads A41_c A41_e A41_lo A41_hi floor_volts ctol (Build_rio (Fin (615 / 128)) (Fin (5 / 1)) (Fin (3715469692580659 / 1125899906842624)) (Fin (6 / 1)) (Fin (12 / 1)) true true true ((Fin (0 / 1)) :: (Fin (0 / 1)) :: (Fin (0 / 1)) :: (Fin (0 / 1)) :: (Fin (27 / 4)) :: (Fin (45 / 1)) :: nil)) (9 / 2).
Proof. apply (A41_rio_fin _ (615 / 128)); [reflexivity | apply (A41_q_lo 615 128 9 2); [vm_compute; reflexivity | unfold fr, ctol, A41_lo, A41_c, A41_e; interval with (i_prec 80)]]. Qed.
Lemma r_A41_1175 : rio_reads A41_c A41_e A41_lo A41_hi floor_volts ctol (Build_rio (Fin (4387287778477177 / 1125899906842624)) (Fin (293 / 64)) (Fin (447 / 128)) (Fin (691 / 128)) (Fin (12 / 1)) true true false ((Fin (257 / 128)) :: (Fin (437 / 512)) :: (Fin (755 / 1024)) :: (Fin (194805 / 1024)) :: (Fin (8865 / 1024)) :: (Fin ((-6423) / 512)) :: nil)) (9 / 2).
Proof. apply (A41_rio_fin _ (4387287778477177 / 1125899906842624)); [reflexivity | apply (A41_q_lo 4387287778477177 1125899906842624 9 2); [vm_compute; reflexivity | unfold fr, ctol, A41_lo, A41_c, A41_e; interval with (i_prec 80)]]. Qed.
Lemma r_A41_1191 : rio_reads A41_c A41_e A41_lo A41_hi floor_volts ctol (Build_rio (Fin (1918311973350587 / 562949953421312)) (Fin (543 / 128)) (Fin (3715469692580659 / 1125899906842624)) (Fin ((-12) / 1)) (Fin (12507 / 1024)) false true true ((Fin (57 / 128)) :: (Fin (287 / 256)) :: (Fin (2555 / 1024)) :: (Fin (77 / 1024)) :: (Fin (1527 / 256)) :: (Fin (41709 / 1024)) :: nil)) (9 / 2).
Proof. apply (A41_rio_fin _ (1918311973350587 / 562949953421312)); [reflexivity | apply (A41_q_lo 1918311973350587 562949953421312 9 2); [vm_compute; reflexivity | unfold fr, ctol, A41_lo, A41_c, A41_e; interval with (i_prec 80)]]. Qed.
Lemma r_A41_1207 : rio_reads A41_c A41_e A41_lo A41_hi floor_volts ctol (Build_rio (Fin (111811948931165 / 1125899906842624)) (Fin (5 / 1)) (Fin (3715469692580659 / 1125899906842624)) (Fin (6 / 1)) (Fin (12 / 1)) true true true ((Fin (0 / 1)) :: (Fin (0 / 1)) :: (Fin (0 / 1)) :: (Fin (0 / 1)) :: (Fin (27 / 4)) :: (Fin (45 / 1)) :: nil)) (35 / 1).
Proof. apply (A41_rio_fin _ (111811948931165 / 1125899906842624)); [reflexivity | apply (A41_q_hi 111811948931165 1125899906842624 35 1); [vm_compute; reflexivity | unfold fr, ctol, A41_hi, A41_c, A41_e; interval with (i_prec 80)]]. Qed.
Lemma r_A41_1223 : rio_reads A41_c A41_e A41_lo A41_hi floor_volts ctol (Build_rio (Fin (2222703834372265 / 1125899906842624)) (Fin (4737 / 1024)) (Fin ((-12) / 1)) (Fin (0 / 1)) (Fin (100000000000000001097906362944045541740492309677311846336810682903157585404911491537163328978494688899061249669721172515611590283743140088328307009198146046031271664502933027185697489699588559043338384466165001178426897626212945177628091195786707458122783970171784415105291802893207873272974885715430223118336 / 1)) false true true ((Fin (2671 / 1024)) :: (Fin (275 / 256)) :: (Fin (2499 / 1024)) :: (Fin (5397 / 1024)) :: (Fin (8351 / 1024)) :: (Fin (77861 / 1024)) :: nil)) (7411083584160863 / 1125899906842624).
Proof. apply (A41_rio_fin _ (2222703834372265 / 1125899906842624)); [reflexivity | apply (A41_q_mid 2222703834372265 1125899906842624 7411083584160863 1125899906842624); [vm_compute; reflexivity | unfold fr, close, ctol, A41_c, A41_e; interval with (i_prec 80)]]. Qed.
Lemma r_A41_1242 : rio_reads A41_c A41_e A41_lo A41_hi floor_volts ctol (Build_rio (Fin (2891961487599383 / 4611686018427387904)) (Fin (4525 / 1024)) (Fin (347 / 128)) (Fin (3441 / 256)) (Fin (10359 / 1024)) false true true ((Fin (1525 / 512)) :: (Fin (279 / 512)) :: (Fin (1637 / 1024)) :: (Fin (84353 / 512)) :: (Fin (4129 / 512)) :: (Fin (29845 / 512)) :: nil)) (35 / 1).
Proof. apply (A41_rio_fin _ (2891961487599383 / 4611686018427387904)); [reflexivity | apply (A41_q_hi 2891961487599383 4611686018427387904 35 1); [vm_compute; reflexivity | unfold fr, ctol, A41_hi, A41_c, A41_e; interval with (i_prec 80)]]. Qed.
Lemma r_A41_1263 : rio_reads A41_c A41_e A41_lo A41_hi floor_volts ctol (Build_rio (Fin (8323004554233147 / 70368744177664)) (Fin (2785 / 256)) (Fin (3715469692580659 / 1125899906842624)) (Fin (665 / 128)) (Fin (11749 / 1024)) true true true ((Fin (849 / 512)) :: (Fin (1257 / 1024)) :: (Fin (1913 / 1024)) :: (Fin (77113 / 1024)) :: (Fin (8895 / 1024)) :: (Fin (35269 / 1024)) :: nil)) (9 / 2).
Proof. apply (A41_rio_fin _ (8323004554233147 / 70368744177664)); [reflexivity | apply (A41_q_lo 8323004554233147 70368744177664 9 2); [vm_compute; reflexivity | unfold fr, ctol, A41_lo, A41_c, A41_e; interval with (i_prec 80)]]. Qed.
Lemma d_A41_1339r : rio_reads A41_c A41_e A41_lo A41_hi floor_volts ctol (Build_rio (Fin (5881157630324709 / 2251799813685248)) (Fin (2589569785738035 / 562949953421312)) (Fin (3 / 1)) (Fin (11 / 2)) (Fin (21 / 2)) true true true ((Fin (3 / 2)) :: (Fin (3602879701896397 / 4503599627370496)) :: (Fin (2 / 1)) :: (Fin (90 / 1)) :: (Fin (27 / 4)) :: (Fin (70 / 1)) :: nil)) (5 / 1).
Proof. apply (A41_rio_fin _ (5881157630324709 / 2251799813685248)); [reflexivity | apply (A41_q_mid 5881157630324709 2251799813685248 5 1); [vm_compute; reflexivity | unfold fr, close, ctol, A41_c, A41_e; interval with (i_prec 80)]]. Qed.
Lemma d_A41_1347r : rio_reads A41_c A41_e A41_lo A41_hi floor_volts ctol (Build_rio (Fin (6491044311201869 / 18014398509481984)) (Fin (5854679515581645 / 1125899906842624)) (Fin (3715469692580659 / 1125899906842624)) (Fin (6 / 1)) (Fin (12 / 1)) true true true ((Fin (0 / 1)) :: (Fin (0 / 1)) :: (Fin (0 / 1)) :: (Fin (0 / 1)) :: (Fin (27 / 4)) :: (Fin (45 / 1)) :: nil)) (35 / 1).
Proof. apply (A41_rio_fin _ (6491044311201869 / 18014398509481984)); [reflexivity | apply (A41_q_hi 6491044311201869 18014398509481984 35 1); [vm_compute; reflexivity | unfold fr, ctol, A41_hi, A41_c, A41_e; interval with (i_prec 80)]]. Qed.
Lemma d_A41_1355r : rio_reads A41_c A41_e A41_lo A41_hi floor_volts ctol (Build_rio (Fin (1636741441258383 / 562949953421312)) (Fin (5629499534213121 / 1125899906842624)) (Fin (3715469692580659 / 1125899906842624)) (Fin (6 / 1)) (Fin (12 / 1)) true true true ((Fin (0 / 1)) :: (Fin (0 / 1)) :: (Fin (0 / 1)) :: (Fin (0 / 1)) :: (Fin (27 / 4)) :: (Fin (45 / 1)) :: nil)) (9 / 2).
Proof. apply (A41_rio_fin _ (1636741441258383 / 562949953421312)); [reflexivity | apply (A41_q_lo 1636741441258383 562949953421312 9 2); [vm_compute; reflexivity | unfold fr, ctol, A41_lo, A41_c, A41_e; interval with (i_prec 80)]]. Qed.
Lemma d_A41_1363r : rio_reads A41_c A41_e A41_lo A41_hi floor_volts ctol (Build_rio (Fin (4571203366206447 / 9007199254740992)) (Fin (5 / 1)) (Fin (3715469692580659 / 1125899906842624)) (Fin (6 / 1)) (Fin (7 / 1)) true true true ((Fin (0 / 1)) :: (Fin (0 / 1)) :: (Fin (0 / 1)) :: (Fin (0 / 1)) :: (Fin (27 / 4)) :: (Fin (45 / 1)) :: nil)) (7036874417766401 / 281474976710656).
Proof. apply (A41_rio_fin _ (4571203366206447 / 9007199254740992)); [reflexivity | apply (A41_q_mid 4571203366206447 9007199254740992 7036874417766401 281474976710656); [vm_compute; reflexivity | unfold fr, close, ctol, A41_c, A41_e; interval with (i_prec 80)]]. Qed.
Lemma d_A41_1371r : rio_reads A41_c A41_e A41_lo A41_hi floor_volts ctol (Build_rio (Fin (6491044311201869 / 18014398509481984)) (Fin (5 / 1)) (Fin (3715469692580659 / 1125899906842624)) (Fin (6 / 1)) NInf true true true ((Fin (0 / 1)) :: (Fin (0 / 1)) :: (Fin (0 / 1)) :: (Fin (0 / 1)) :: (Fin (27 / 4)) :: (Fin (45 / 1)) :: nil)) (35 / 1).
Proof. apply (A41_rio_fin _ (6491044311201869 / 18014398509481984)); [reflexivity | apply (A41_q_hi 6491044311201869 18014398509481984 35 1); [vm_compute; reflexivity | unfold fr, ctol, A41_hi, A41_c, A41_e; interval with (i_prec 80)]]. Qed.
Lemma d_A41_1379r : rio_reads A41_c A41_e A41_lo A41_hi floor_volts ctol (Build_rio (Fin (3245522155600935 / 9007199254740992)) (Fin (5 / 1)) (Fin (3715469692580659 / 1125899906842624)) (Fin (13 / 2)) (Fin (12 / 1)) true true true ((Fin (0 / 1)) :: (Fin (0 / 1)) :: (Fin (0 / 1)) :: (Fin (0 / 1)) :: (Fin (27 / 4)) :: (Fin (45 / 1)) :: nil)) (35 / 1).
Proof. apply (A41_rio_fin _ (3245522155600935 / 9007199254740992)); [reflexivity | apply (A41_q_hi 3245522155600935 9007199254740992 35 1); [vm_compute; reflexivity | unfold fr, ctol, A41_hi, A41_c, A41_e; interval with (i_prec 80)]]. Qed.
Lemma d_A41_1387r : rio_reads A41_c A41_e A41_lo A41_hi floor_volts ctol (Build_rio (Fin (1636741441258383 / 562949953421312)) (Fin (5 / 1)) (Fin (3715469692580659 / 1125899906842624)) (Fin (6 / 1)) (Fin (12 / 1)) true true true ((Fin (1 / 2)) :: (Fin (0 / 1)) :: (Fin (0 / 1)) :: (Fin (0 / 1)) :: (Fin (27 / 4)) :: (Fin (45 / 1)) :: nil)) (9 / 2).
Proof. apply (A41_rio_fin _ (1636741441258383 / 562949953421312)); [reflexivity | apply (A41_q_lo 1636741441258383 562949953421312 9 2); [vm_compute; reflexivity | unfold fr, ctol, A41_lo, A41_c, A41_e; interval with (i_prec 80)]]. Qed.
Lemma d_A41_1399u : close ctol (4054562698449687 / 9007199254740992) (volts_A41 (7916798658209367 / 281474976710656)).
Proof. apply (A41_q_volts_mid 7916798658209367 281474976710656 4054562698449687 9007199254740992); [vm_compute; reflexivity | unfold fr, close, ctol, A41_lo, A41_hi, A41_c, A41_e; interval with (i_prec 80)]. Qed.
Lemma d_A41_1412u : close ctol (8465460037654405 / 9007199254740992) (volts_A41 (1920613141770127 / 140737488355328)).
Proof. apply (A41_q_volts_mid 1920613141770127 140737488355328 8465460037654405 9007199254740992); [vm_compute; reflexivity | unfold fr, close, ctol, A41_lo, A41_hi, A41_c, A41_e; interval with (i_prec 80)]. Qed.
Lemma d_A41_1424r : rio_reads A41_c A41_e A41_lo A41_hi floor_volts ctol (Build_rio (Fin (2118717447495031 / 4503599627370496)) (Fin (5 / 1)) (Fin (3715469692580659 / 1125899906842624)) (Fin (6 / 1)) (Fin (12 / 1)) true true true ((Fin (0 / 1)) :: (Fin (0 / 1)) :: (Fin (0 / 1)) :: (Fin (0 / 1)) :: (Fin (27 / 4)) :: (Fin (45 / 1)) :: nil)) (7581022413876561 / 281474976710656).
Proof. apply (A41_rio_fin _ (2118717447495031 / 4503599627370496)); [reflexivity | apply (A41_q_mid 2118717447495031 4503599627370496 7581022413876561 281474976710656); [vm_compute; reflexivity | unfold fr, close, ctol, A41_c, A41_e; interval with (i_prec 80)]]. Qed.
Lemma d_A41_1437u : close ctol (1930779976179881 / 2251799813685248) (volts_A41 (8407292878914877 / 562949953421312)).
Proof. apply (A41_q_volts_mid 8407292878914877 562949953421312 1930779976179881 2251799813685248); [vm_compute; reflexivity | unfold fr, close, ctol, A41_lo, A41_hi, A41_c, A41_e; interval with (i_prec 80)]. Qed.
Lemma d_A41_1450u : close ctol (1636741441258383 / 562949953421312) (volts_A41 (2215950293071037 / 1125899906842624)).
Proof. apply (A41_q_volts_lo 2215950293071037 1125899906842624 1636741441258383 562949953421312); [vm_compute; reflexivity | unfold fr, close, ctol, A41_lo, A41_hi, A41_c, A41_e; interval with (i_prec 80)]. Qed.
Lemma d_A41_1463u : close ctol (6022196591998363 / 4503599627370496) (volts_A41 (1358315637239487 / 140737488355328)).
Proof. apply (A41_q_volts_mid 1358315637239487 140737488355328 6022196591998363 4503599627370496); [vm_compute; reflexivity | unfold fr, close, ctol, A41_lo, A41_hi, A41_c, A41_e; interval with (i_prec 80)]. Qed.
Lemma d_A41_1476u : close ctol (7329247901786757 / 18014398509481984) (volts_A41 (8743620665609407 / 281474976710656)).
Proof. apply (A41_q_volts_mid 8743620665609407 281474976710656 7329247901786757 18014398509481984); [vm_compute; reflexivity | unfold fr, close, ctol, A41_lo, A41_hi, A41_c, A41_e; interval with (i_prec 80)]. Qed.
Lemma d_A41_1488r : rio_reads A41_c A41_e A41_lo A41_hi floor_volts ctol (Build_rio (Fin (1636741441258383 / 562949953421312)) (Fin ((-1) / 1)) (Fin (1 / 1)) (Fin ((-12) / 1)) (Fin (10869 / 1024)) true true true ((Fin (829 / 512)) :: (Fin (615 / 512)) :: (Fin (337 / 512)) :: (Fin (27297 / 1024)) :: (Fin (6235 / 1024)) :: (Fin (27199 / 512)) :: nil)) (9 / 2).
Proof. apply (A41_rio_fin _ (1636741441258383 / 562949953421312)); [reflexivity | apply (A41_q_lo 1636741441258383 562949953421312 9 2); [vm_compute; reflexivity | unfold fr, ctol, A41_lo, A41_c, A41_e; interval with (i_prec 80)]]. Qed.
Lemma d_A41_1501u : close ctol (2569540686860265 / 2251799813685248) (volts_A41 (1587296405053957 / 140737488355328)).
Proof. apply (A41_q_volts_mid 1587296405053957 140737488355328 2569540686860265 2251799813685248); [vm_compute; reflexivity | unfold fr, close, ctol, A41_lo, A41_hi, A41_c, A41_e; interval with (i_prec 80)]. Qed.
Lemma d_A41_1514u : close ctol (967714021015737 / 1125899906842624) (volts_A41 (2096864278420763 / 140737488355328)).
Proof. apply (A41_q_volts_mid 2096864278420763 140737488355328 967714021015737 1125899906842624); [vm_compute; reflexivity | unfold fr, close, ctol, A41_lo, A41_hi, A41_c, A41_e; interval with (i_prec 80)]. Qed.
Lemma d_A41_1527u : close ctol (6491044311201869 / 18014398509481984) (volts_A41 (3814856147815671 / 70368744177664)).
Proof. apply (A41_q_volts_hi 3814856147815671 70368744177664 6491044311201869 18014398509481984); [vm_compute; reflexivity | unfold fr, close, ctol, A41_lo, A41_hi, A41_c, A41_e; interval with (i_prec 80)]. Qed.
Lemma d_A41_1540u : close ctol (6690662205257753 / 18014398509481984) (volts_A41 (2390698640002115 / 70368744177664)).
Proof. apply (A41_q_volts_mid 2390698640002115 70368744177664 6690662205257753 18014398509481984); [vm_compute; reflexivity | unfold fr, close, ctol, A41_lo, A41_hi, A41_c, A41_e; interval with (i_prec 80)]. Qed.
Lemma d_A41_1552r : rio_reads A41_c A41_e A41_lo A41_hi floor_volts ctol (Build_rio (Fin (4788678270227113 / 2251799813685248)) (Fin (13249 / 1024)) (Fin (769 / 256)) (Fin (3281 / 512)) (Fin (11393 / 1024)) true true false ((Fin (1355 / 1024)) :: (Fin (1881 / 1024)) :: (Fin (171 / 128)) :: (Fin (183713 / 1024)) :: (Fin (6283 / 1024)) :: (Fin (34529 / 512)) :: nil)) (1722210395014285 / 281474976710656).
Proof. apply (A41_rio_fin _ (4788678270227113 / 2251799813685248)); [reflexivity | apply (A41_q_mid 4788678270227113 2251799813685248 1722210395014285 281474976710656); [vm_compute; reflexivity | unfold fr, close, ctol, A41_c, A41_e; interval with (i_prec 80)]]. Qed.
Lemma d_A41_1565u : close ctol (2589598895766403 / 4503599627370496) (volts_A41 (6224469294799971 / 281474976710656)).
Proof. apply (A41_q_volts_mid 6224469294799971 281474976710656 2589598895766403 4503599627370496); [vm_compute; reflexivity | unfold fr, close, ctol, A41_lo, A41_hi, A41_c, A41_e; interval with (i_prec 80)]. Qed.
Lemma d_A41_1578u : close ctol (3084914940024775 / 2251799813685248) (volts_A41 (2652757534920993 / 281474976710656)).
Proof. apply (A41_q_volts_mid 2652757534920993 281474976710656 3084914940024775 2251799813685248); [vm_compute; reflexivity | unfold fr, close, ctol, A41_lo, A41_hi, A41_c, A41_e; interval with (i_prec 80)]. Qed.
Lemma d_A41_1591u : close ctol (256102691773803 / 281474976710656) (volts_A41 (3965595498400533 / 281474976710656)).
Proof. apply (A41_q_volts_mid 3965595498400533 281474976710656 256102691773803 281474976710656); [vm_compute; reflexivity | unfold fr, close, ctol, A41_lo, A41_hi, A41_c, A41_e; interval with (i_prec 80)]. Qed.
Lemma d_A41_1604u : close ctol (367784620083363 / 562949953421312) (volts_A41 (5490693704998747 / 281474976710656)).
Proof. apply (A41_q_volts_mid 5490693704998747 281474976710656 367784620083363 562949953421312); [vm_compute; reflexivity | unfold fr, close, ctol, A41_lo, A41_hi, A41_c, A41_e; interval with (i_prec 80)]. Qed.
Lemma d_A41_1616r : rio_reads A41_c A41_e A41_lo A41_hi floor_volts ctol (Build_rio (Fin (3528921542690893 / 9007199254740992)) (Fin (5 / 1)) (Fin (3715469692580659 / 1125899906842624)) (Fin (6 / 1)) (Fin (12 / 1)) true true true ((Fin (0 / 1)) :: (Fin (0 / 1)) :: (Fin (0 / 1)) :: (Fin (0 / 1)) :: (Fin (27 / 4)) :: (Fin (45 / 1)) :: nil)) (2268455743566697 / 70368744177664).
Proof. apply (A41_rio_fin _ (3528921542690893 / 9007199254740992)); [reflexivity | apply (A41_q_mid 3528921542690893 9007199254740992 2268455743566697 70368744177664); [vm_compute; reflexivity | unfold fr, close, ctol, A41_c, A41_e; interval with (i_prec 80)]]. Qed.
Lemma d_A41_1629u : close ctol (6491044311201869 / 18014398509481984) (volts_A41 (67 / 1)).
Proof. apply (A41_q_volts_hi 67 1 6491044311201869 18014398509481984); [vm_compute; reflexivity | unfold fr, close, ctol, A41_lo, A41_hi, A41_c, A41_e; interval with (i_prec 80)]. Qed.
Lemma d_A41_1642u : close ctol (3453712603930031 / 4503599627370496) (volts_A41 (4690828764778875 / 281474976710656)).
Proof. apply (A41_q_volts_mid 4690828764778875 281474976710656 3453712603930031 4503599627370496); [vm_compute; reflexivity | unfold fr, close, ctol, A41_lo, A41_hi, A41_c, A41_e; interval with (i_prec 80)]. Qed.
Lemma d_A41_1655u : close ctol (1636741441258383 / 562949953421312) (volts_A41 (4299421311940667 / 1125899906842624)).
Proof. apply (A41_q_volts_lo 4299421311940667 1125899906842624 1636741441258383 562949953421312); [vm_compute; reflexivity | unfold fr, close, ctol, A41_lo, A41_hi, A41_c, A41_e; interval with (i_prec 80)]. Qed.
Lemma d_A41_1668u : close ctol (79621134179491 / 140737488355328) (volts_A41 (3162294721846373 / 140737488355328)).
Proof. apply (A41_q_volts_mid 3162294721846373 140737488355328 79621134179491 140737488355328); [vm_compute; reflexivity | unfold fr, close, ctol, A41_lo, A41_hi, A41_c, A41_e; interval with (i_prec 80)]. Qed.
Lemma d_A41_1680r : rio_reads A41_c A41_e A41_lo A41_hi floor_volts ctol (Build_rio (Fin (836715358610303 / 2251799813685248)) (Fin (5513 / 1024)) (Fin (1421 / 512)) (Fin (203 / 32)) (Fin (12715 / 1024)) true false true ((Fin (1113 / 512)) :: (Fin (57 / 512)) :: (Fin (735 / 512)) :: (Fin (98335 / 1024)) :: (Fin (3797 / 512)) :: (Fin (90843 / 1024)) :: nil)) (2389624742554381 / 70368744177664).
Proof. apply (A41_rio_fin _ (836715358610303 / 2251799813685248)); [reflexivity | apply (A41_q_mid 836715358610303 2251799813685248 2389624742554381 70368744177664); [vm_compute; reflexivity | unfold fr, close, ctol, A41_c, A41_e; interval with (i_prec 80)]]. Qed.
Lemma d_A41_1693u : close ctol (2475910359987259 / 2251799813685248) (volts_A41 (3292493208773129 / 281474976710656)).
Proof. apply (A41_q_volts_mid 3292493208773129 281474976710656 2475910359987259 2251799813685248); [vm_compute; reflexivity | unfold fr, close, ctol, A41_lo, A41_hi, A41_c, A41_e; interval with (i_prec 80)]. Qed.
Lemma d_A41_1706u : close ctol (1636741441258383 / 562949953421312) (volts_A41 (5956553439750999 / 1152921504606846976)).
Proof. apply (A41_q_volts_lo 5956553439750999 1152921504606846976 1636741441258383 562949953421312); [vm_compute; reflexivity | unfold fr, close, ctol, A41_lo, A41_hi, A41_c, A41_e; interval with (i_prec 80)]. Qed.
Lemma d_A41_1719u : close ctol (1636741441258383 / 562949953421312) (volts_A41 (2502754996758091 / 1125899906842624)).
Proof. apply (A41_q_volts_lo 2502754996758091 1125899906842624 1636741441258383 562949953421312); [vm_compute; reflexivity | unfold fr, close, ctol, A41_lo, A41_hi, A41_c, A41_e; interval with (i_prec 80)]. Qed.
Lemma d_A41_1732u : close ctol (2385655929993643 / 4503599627370496) (volts_A41 (3373417021131133 / 140737488355328)).
Proof. apply (A41_q_volts_mid 3373417021131133 140737488355328 2385655929993643 4503599627370496); [vm_compute; reflexivity | unfold fr, close, ctol, A41_lo, A41_hi, A41_c, A41_e; interval with (i_prec 80)]. Qed.
Lemma d_A41_1744r : rio_reads A41_c A41_e A41_lo A41_hi floor_volts ctol (Build_rio (Fin (1095071316517601 / 2251799813685248)) (Fin (5545 / 1024)) (Fin (3401 / 1024)) (Fin (99 / 128)) (Fin ((-1) / 1)) true true true ((Fin (2659 / 1024)) :: (Fin (169 / 1024)) :: (Fin (295 / 512)) :: (Fin (22459 / 512)) :: (Fin (9157 / 1024)) :: (Fin (100403 / 1024)) :: nil)) (7338070047892547 / 281474976710656).
Proof. apply (A41_rio_fin _ (1095071316517601 / 2251799813685248)); [reflexivity | apply (A41_q_mid 1095071316517601 2251799813685248 7338070047892547 281474976710656); [vm_compute; reflexivity | unfold fr, close, ctol, A41_c, A41_e; interval with (i_prec 80)]]. Qed.
Lemma d_A41_1757u : close ctol (4763929679432701 / 9007199254740992) (volts_A41 (6757104783389245 / 281474976710656)).
Proof. apply (A41_q_volts_mid 6757104783389245 281474976710656 4763929679432701 9007199254740992); [vm_compute; reflexivity | unfold fr, close, ctol, A41_lo, A41_hi, A41_c, A41_e; interval with (i_prec 80)]. Qed.
Lemma d_A41_1770u : close ctol (6491044311201869 / 18014398509481984) (volts_A41 (3169836144675135 / 70368744177664)).
Proof. apply (A41_q_volts_hi 3169836144675135 70368744177664 6491044311201869 18014398509481984); [vm_compute; reflexivity | unfold fr, close, ctol, A41_lo, A41_hi, A41_c, A41_e; interval with (i_prec 80)]. Qed.
Lemma d_A41_1783u : close ctol (6491044311201869 / 18014398509481984) (volts_A41 (4275219667681999 / 70368744177664)).
Proof. apply (A41_q_volts_hi 4275219667681999 70368744177664 6491044311201869 18014398509481984); [vm_compute; reflexivity | unfold fr, close, ctol, A41_lo, A41_hi, A41_c, A41_e; interval with (i_prec 80)]. Qed.
Lemma d_A41_1796u : close ctol (5668861414140427 / 4503599627370496) (volts_A41 (5765774068225103 / 562949953421312)).
Proof. apply (A41_q_volts_mid 5765774068225103 562949953421312 5668861414140427 4503599627370496); [vm_compute; reflexivity | unfold fr, close, ctol, A41_lo, A41_hi, A41_c, A41_e; interval with (i_prec 80)]. Qed.
Lemma d_A41_1808r : rio_reads A41_c A41_e A41_lo A41_hi floor_volts ctol (Build_rio (Fin (1636741441258383 / 562949953421312)) (Fin (5 / 1)) (Fin (3715469692580659 / 1125899906842624)) (Fin (6 / 1)) (Fin (12 / 1)) true true true ((Fin (0 / 1)) :: (Fin (0 / 1)) :: (Fin (0 / 1)) :: (Fin (0 / 1)) :: (Fin (27 / 4)) :: (Fin (45 / 1)) :: nil)) (9 / 2).
Proof. apply (A41_rio_fin _ (1636741441258383 / 562949953421312)); [reflexivity | apply (A41_q_lo 1636741441258383 562949953421312 9 2); [vm_compute; reflexivity | unfold fr, ctol, A41_lo, A41_c, A41_e; interval with (i_prec 80)]]. Qed.
Lemma d_A41_1821u : close ctol (6883771317677463 / 18014398509481984) (volts_A41 (4649593534892701 / 140737488355328)).
Proof. apply (A41_q_volts_mid 4649593534892701 140737488355328 6883771317677463 18014398509481984); [vm_compute; reflexivity | unfold fr, close, ctol, A41_lo, A41_hi, A41_c, A41_e; interval with (i_prec 80)]. Qed.
Lemma d_A41_1834u : close ctol (7531699961842581 / 9007199254740992) (volts_A41 (1077144878075245 / 70368744177664)).
Proof. apply (A41_q_volts_mid 1077144878075245 70368744177664 7531699961842581 9007199254740992); [vm_compute; reflexivity | unfold fr, close, ctol, A41_lo, A41_hi, A41_c, A41_e; interval with (i_prec 80)]. Qed.
Lemma d_A41_1847u : close ctol (3456158115318899 / 9007199254740992) (volts_A41 (578841243529709 / 17592186044416)).
Proof. apply (A41_q_volts_mid 578841243529709 17592186044416 3456158115318899 9007199254740992); [vm_compute; reflexivity | unfold fr, close, ctol, A41_lo, A41_hi, A41_c, A41_e; interval with (i_prec 80)]. Qed.
Lemma d_A41_1860u : close ctol (1772288411789071 / 1125899906842624) (volts_A41 (18081232911469 / 2199023255552)).
Proof. apply (A41_q_volts_mid 18081232911469 2199023255552 1772288411789071 1125899906842624); [vm_compute; reflexivity | unfold fr, close, ctol, A41_lo, A41_hi, A41_c, A41_e; interval with (i_prec 80)]. Qed.
Lemma d_A41_1872r : rio_reads A41_c A41_e A41_lo A41_hi floor_volts ctol (Build_rio (Fin (3661906383558477 / 9007199254740992)) (Fin (5 / 1)) (Fin (0 / 1)) (Fin (6369 / 1024)) (Fin (1 / 1)) true true true ((Fin (2311 / 1024)) :: (Fin (265 / 512)) :: (Fin (49 / 64)) :: (Fin (172303 / 1024)) :: (Fin (305 / 64)) :: (Fin (845 / 16)) :: nil)) (4374997610523721 / 140737488355328).
Proof. apply (A41_rio_fin _ (3661906383558477 / 9007199254740992)); [reflexivity | apply (A41_q_mid 3661906383558477 9007199254740992 4374997610523721 140737488355328); [vm_compute; reflexivity | unfold fr, close, ctol, A41_c, A41_e; interval with (i_prec 80)]]. Qed.
Lemma d_A41_1885u : close ctol (1724004812972021 / 2251799813685248) (volts_A41 (1174612673192003 / 70368744177664)).
Proof. apply (A41_q_volts_mid 1174612673192003 70368744177664 1724004812972021 2251799813685248); [vm_compute; reflexivity | unfold fr, close, ctol, A41_lo, A41_hi, A41_c, A41_e; interval with (i_prec 80)]. Qed.
Lemma d_A41_1898u : close ctol (7973782521678779 / 18014398509481984) (volts_A41 (2012197425411399 / 70368744177664)).
Proof. apply (A41_q_volts_mid 2012197425411399 70368744177664 7973782521678779 18014398509481984); [vm_compute; reflexivity | unfold fr, close, ctol, A41_lo, A41_hi, A41_c, A41_e; interval with (i_prec 80)]. Qed.
Lemma d_A41_1911u : close ctol (4551743518269227 / 9007199254740992) (volts_A41 (7066428229227311 / 281474976710656)).
Proof. apply (A41_q_volts_mid 7066428229227311 281474976710656 4551743518269227 9007199254740992); [vm_compute; reflexivity | unfold fr, close, ctol, A41_lo, A41_hi, A41_c, A41_e; interval with (i_prec 80)]. Qed.
Lemma d_A41_1924u : close ctol (1636741441258383 / 562949953421312) (volts_A41 (8724153032215641 / 144115188075855872)).
Proof. apply (A41_q_volts_lo 8724153032215641 144115188075855872 1636741441258383 562949953421312); [vm_compute; reflexivity | unfold fr, close, ctol, A41_lo, A41_hi, A41_c, A41_e; interval with (i_prec 80)]. Qed.
Lemma d_A41_1936r : rio_reads A41_c A41_e A41_lo A41_hi floor_volts ctol (Build_rio (Fin (116986341644913 / 140737488355328)) (Fin (1127 / 256)) (Fin (3715469692580659 / 1125899906842624)) (Fin (6579 / 1024)) (Fin (12045 / 1024)) false false true ((Fin (515 / 256)) :: (Fin (187 / 128)) :: (Fin (2805 / 1024)) :: (Fin (178433 / 1024)) :: (Fin (1491 / 256)) :: (Fin (72283 / 1024)) :: nil)) (8667555152501739 / 562949953421312).
Proof. apply (A41_rio_fin _ (116986341644913 / 140737488355328)); [reflexivity | apply (A41_q_mid 116986341644913 140737488355328 8667555152501739 562949953421312); [vm_compute; reflexivity | unfold fr, close, ctol, A41_c, A41_e; interval with (i_prec 80)]]. Qed.
Lemma d_A41_1949u : close ctol (1708998075627699 / 2251799813685248) (volts_A41 (4738978608930827 / 281474976710656)).
Proof. apply (A41_q_volts_mid 4738978608930827 281474976710656 1708998075627699 2251799813685248); [vm_compute; reflexivity | unfold fr, close, ctol, A41_lo, A41_hi, A41_c, A41_e; interval with (i_prec 80)]. Qed.
Lemma d_A41_1962u : close ctol (3422878823422927 / 9007199254740992) (volts_A41 (4674956524835089 / 140737488355328)).
Proof. apply (A41_q_volts_mid 4674956524835089 140737488355328 3422878823422927 9007199254740992); [vm_compute; reflexivity | unfold fr, close, ctol, A41_lo, A41_hi, A41_c, A41_e; interval with (i_prec 80)]. Qed.
Lemma d_A41_1975u : close ctol (3420859329311481 / 2251799813685248) (volts_A41 (74893763699447 / 8796093022208)).
Proof. apply (A41_q_volts_mid 74893763699447 8796093022208 3420859329311481 2251799813685248); [vm_compute; reflexivity | unfold fr, close, ctol, A41_lo, A41_hi, A41_c, A41_e; interval with (i_prec 80)]. Qed.
Lemma d_A41_1988u : close ctol (7572801735149371 / 9007199254740992) (volts_A41 (2142802475704891 / 140737488355328)).
Proof. apply (A41_q_volts_mid 2142802475704891 140737488355328 7572801735149371 9007199254740992); [vm_compute; reflexivity | unfold fr, close, ctol, A41_lo, A41_hi, A41_c, A41_e; interval with (i_prec 80)]. Qed.
Lemma r_A02_12 : rio_reads A02_c A02_e A02_lo A02_hi floor_volts ctol (Build_rio (Fin (0 / 1)) (Fin (5629499534213119 / 1125899906842624)) (Fin (3715469692580659 / 1125899906842624)) (Fin (6 / 1)) (Fin (12 / 1)) true true true ((Fin (0 / 1)) :: (Fin (0 / 1)) :: (Fin (0 / 1)) :: (Fin (0 / 1)) :: (Fin (27 / 4)) :: (Fin (45 / 1)) :: nil)) (435215207548285 / 8796093022208).
Proof. apply (A02_rio_fin _ (0 / 1)); [reflexivity | apply (A02_q_floor 0 1 435215207548285 8796093022208); vm_compute; reflexivity]. Qed.
Lemma r_A02_25 : rio_reads A02_c A02_e A02_lo A02_hi floor_volts ctol (Build_rio (Fin (2951183903888349 / 295147905179352825856)) (Fin (5 / 1)) (Fin (3715469692580659 / 1125899906842624)) (Fin (6 / 1)) (Fin (100000000000000001097906362944045541740492309677311846336810682903157585404911491537163328978494688899061249669721172515611590283743140088328307009198146046031271664502933027185697489699588559043338384466165001178426897626212945177628091195786707458122783970171784415105291802893207873272974885715430223118336 / 1)) true true true ((Fin (0 / 1)) :: (Fin (0 / 1)) :: (Fin (0 / 1)) :: (Fin (0 / 1)) :: (Fin (27 / 4)) :: (Fin (45 / 1)) :: nil)) (145 / 1).
Proof. apply (A02_rio_fin _ (2951183903888349 / 295147905179352825856)); [reflexivity | apply (A02_q_floor 2951183903888349 295147905179352825856 145 1); vm_compute; reflexivity]. Qed.
Lemma d_A02_2g : get_distance (set_distance A02_c A02_e A02_lo A02_hi sim_init ((-5) / 1)) = ((-5) / 1).
Proof. cbn [get_distance set_distance sim_distance]. first [reflexivity | lra]. Qed.
Lemma d_A02_9c : close ctol (60 / 1) (clamp A02_lo A02_hi (60 / 1)).
Proof. apply (A02_q_clamp_mid 60 1 60 1); vm_compute; reflexivity. Qed.
Lemma d_A02_15g : get_distance (set_distance A02_c A02_e A02_lo A02_hi sim_init (80 / 1)) = (80 / 1).
Proof. cbn [get_distance set_distance sim_distance]. first [reflexivity | lra]. Qed.
Lemma d_A02_22c : close ctol (45 / 2) (clamp A02_lo A02_hi ((-1) / 1)).
Proof. apply (A02_q_clamp_lo (-1) 1 45 2); vm_compute; reflexivity. Qed.
Lemma d_A02_30c : close ctol (45 / 2) (clamp A02_lo A02_hi (10 / 1)).
Proof. apply (A02_q_clamp_lo 10 1 45 2); vm_compute; reflexivity. Qed.
Lemma d_A02_38c : close ctol (145 / 1) (clamp A02_lo A02_hi (1000000 / 1)).
Proof. apply (A02_q_clamp_hi 1000000 1 145 1); vm_compute; reflexivity. Qed.
Lemma d_A02_47c : close ctol (5101733952880639 / 35184372088832) (clamp A02_lo A02_hi (5101733952880639 / 35184372088832)).
Proof. apply (A02_q_clamp_mid 5101733952880639 35184372088832 5101733952880639 35184372088832); vm_compute; reflexivity. Qed.
Lemma d_A02_55c : close ctol (45 / 2) (clamp A02_lo A02_hi (22 / 1)).
Proof. apply (A02_q_clamp_lo 22 1 45 2); vm_compute; reflexivity. Qed.
Lemma d_A02_63c : close ctol (5947558970092391 / 140737488355328) (clamp A02_lo A02_hi (5947558970092391 / 140737488355328)).
Proof. apply (A02_q_clamp_mid 5947558970092391 140737488355328 5947558970092391 140737488355328); vm_compute; reflexivity. Qed.
Lemma d_A02_71c : close ctol (86 / 1) (clamp A02_lo A02_hi (86 / 1)).
Proof. apply (A02_q_clamp_mid 86 1 86 1); vm_compute; reflexivity. Qed.
Lemma d_A02_79c : close ctol (3624132507725329 / 70368744177664) (clamp A02_lo A02_hi (3624132507725329 / 70368744177664)).
Proof. apply (A02_q_clamp_mid 3624132507725329 70368744177664 3624132507725329 70368744177664); vm_compute; reflexivity. Qed.
Lemma d_A02_87c : close ctol (8855300688341519 / 140737488355328) (clamp A02_lo A02_hi (8855300688341519 / 140737488355328)).
Proof. apply (A02_q_clamp_mid 8855300688341519 140737488355328 8855300688341519 140737488355328); vm_compute; reflexivity. Qed.
Lemma d_A02_95c : close ctol (4661720596129359 / 35184372088832) (clamp A02_lo A02_hi (4661720596129359 / 35184372088832)).
Proof. apply (A02_q_clamp_mid 4661720596129359 35184372088832 4661720596129359 35184372088832); vm_compute; reflexivity. Qed.
Lemma d_A02_103c : close ctol (303102912436421 / 4398046511104) (clamp A02_lo A02_hi (303102912436421 / 4398046511104)).
Proof. apply (A02_q_clamp_mid 303102912436421 4398046511104 303102912436421 4398046511104); vm_compute; reflexivity. Qed.
Lemma d_A02_111c : close ctol (4834422152448211 / 35184372088832) (clamp A02_lo A02_hi (4834422152448211 / 35184372088832)).
Proof. apply (A02_q_clamp_mid 4834422152448211 35184372088832 4834422152448211 35184372088832); vm_compute; reflexivity. Qed.
Lemma d_A02_119c : close ctol (5009204823141593 / 140737488355328) (clamp A02_lo A02_hi (5009204823141593 / 140737488355328)).
Proof. apply (A02_q_clamp_mid 5009204823141593 140737488355328 5009204823141593 140737488355328); vm_compute; reflexivity. Qed.
Lemma d_A02_127c : close ctol (3441999650449281 / 35184372088832) (clamp A02_lo A02_hi (3441999650449281 / 35184372088832)).
Proof. apply (A02_q_clamp_mid 3441999650449281 35184372088832 3441999650449281 35184372088832); vm_compute; reflexivity. Qed.
Lemma d_A02_135c : close ctol (4494903159522723 / 35184372088832) (clamp A02_lo A02_hi (4494903159522723 / 35184372088832)).
Proof. apply (A02_q_clamp_mid 4494903159522723 35184372088832 4494903159522723 35184372088832); vm_compute; reflexivity. Qed.
Lemma d_A02_143c : close ctol (7580568598541309 / 70368744177664) (clamp A02_lo A02_hi (3790284299270655 / 35184372088832)).
Proof. apply (A02_q_clamp_mid 3790284299270655 35184372088832 7580568598541309 70368744177664); vm_compute; reflexivity. Qed.
Lemma d_A02_151c : close ctol (2184476404457587 / 17592186044416) (clamp A02_lo A02_hi (8737905617830347 / 70368744177664)).
Proof. apply (A02_q_clamp_mid 8737905617830347 70368744177664 2184476404457587 17592186044416); vm_compute; reflexivity. Qed.
Lemma d_A02_159c : close ctol (145 / 1) (clamp A02_lo A02_hi (85232732355163 / 17179869184)).
Proof. apply (A02_q_clamp_hi 85232732355163 17179869184 145 1); vm_compute; reflexivity. Qed.
Lemma d_A02_167c : close ctol (3305846859546345 / 70368744177664) (clamp A02_lo A02_hi (3305846859546345 / 70368744177664)).
Proof. apply (A02_q_clamp_mid 3305846859546345 70368744177664 3305846859546345 70368744177664); vm_compute; reflexivity. Qed.
Lemma d_A02_175c : close ctol (2504116230027865 / 17592186044416) (clamp A02_lo A02_hi (2504116230027865 / 17592186044416)).
Proof. apply (A02_q_clamp_mid 2504116230027865 17592186044416 2504116230027865 17592186044416); vm_compute; reflexivity. Qed.
Lemma d_A02_183c : close ctol (1362186038506895 / 17592186044416) (clamp A02_lo A02_hi (1362186038506895 / 17592186044416)).
Proof. apply (A02_q_clamp_mid 1362186038506895 17592186044416 1362186038506895 17592186044416); vm_compute; reflexivity. Qed.
Lemma d_A02_191c : close ctol (948787389580531 / 8796093022208) (clamp A02_lo A02_hi (948787389580531 / 8796093022208)).
Proof. apply (A02_q_clamp_mid 948787389580531 8796093022208 948787389580531 8796093022208); vm_compute; reflexivity. Qed.
Lemma d_A02_199c : close ctol (45 / 2) (clamp A02_lo A02_hi ((-207474732100977) / 281474976710656)).
Proof. apply (A02_q_clamp_lo (-207474732100977) 281474976710656 45 2); vm_compute; reflexivity. Qed.
Lemma d_A02_207c : close ctol (145 / 1) (clamp A02_lo A02_hi (6911053060436107 / 35184372088832)).
Proof. apply (A02_q_clamp_hi 6911053060436107 35184372088832 145 1); vm_compute; reflexivity. Qed.
Lemma d_A02_215c : close ctol (5762558675290613 / 70368744177664) (clamp A02_lo A02_hi (5762558675290613 / 70368744177664)).
Proof. apply (A02_q_clamp_mid 5762558675290613 70368744177664 5762558675290613 70368744177664); vm_compute; reflexivity. Qed.
Lemma d_A02_223c : close ctol (4648620670620743 / 35184372088832) (clamp A02_lo A02_hi (2324310335310371 / 17592186044416)).
Proof. apply (A02_q_clamp_mid 2324310335310371 17592186044416 4648620670620743 35184372088832); vm_compute; reflexivity. Qed.
Lemma d_A02_231c : close ctol (145 / 1) (clamp A02_lo A02_hi (178 / 1)).
Proof. apply (A02_q_clamp_hi 178 1 145 1); vm_compute; reflexivity. Qed.
Lemma d_A02_239c : close ctol (2569598315510865 / 35184372088832) (clamp A02_lo A02_hi (2569598315510865 / 35184372088832)).
Proof. apply (A02_q_clamp_mid 2569598315510865 35184372088832 2569598315510865 35184372088832); vm_compute; reflexivity. Qed.
Lemma d_A02_247c : close ctol (6362162874473619 / 140737488355328) (clamp A02_lo A02_hi (6362162874473619 / 140737488355328)).
Proof. apply (A02_q_clamp_mid 6362162874473619 140737488355328 6362162874473619 140737488355328); vm_compute; reflexivity. Qed.
Lemma d_A02_255c : close ctol (1459198749358417 / 17592186044416) (clamp A02_lo A02_hi (1459198749358417 / 17592186044416)).
Proof. apply (A02_q_clamp_mid 1459198749358417 17592186044416 1459198749358417 17592186044416); vm_compute; reflexivity. Qed.
Lemma d_A02_263c : close ctol (145 / 1) (clamp A02_lo A02_hi (1532758911482463 / 4398046511104)).
Proof. apply (A02_q_clamp_hi 1532758911482463 4398046511104 145 1); vm_compute; reflexivity. Qed.
Lemma d_A02_271c : close ctol (544437948818467 / 4398046511104) (clamp A02_lo A02_hi (544437948818467 / 4398046511104)).
Proof. apply (A02_q_clamp_mid 544437948818467 4398046511104 544437948818467 4398046511104); vm_compute; reflexivity. Qed.
Lemma d_A02_279c : close ctol (1238582990965757 / 8796093022208) (clamp A02_lo A02_hi (1238582990965757 / 8796093022208)).
Proof. apply (A02_q_clamp_mid 1238582990965757 8796093022208 1238582990965757 8796093022208); vm_compute; reflexivity. Qed.
Lemma d_A02_287c : close ctol (145 / 1) (clamp A02_lo A02_hi (2788215405915999 / 17592186044416)).
Proof. apply (A02_q_clamp_hi 2788215405915999 17592186044416 145 1); vm_compute; reflexivity. Qed.
Lemma d_A02_295c : close ctol (5277096028428841 / 140737488355328) (clamp A02_lo A02_hi (5277096028428841 / 140737488355328)).
Proof. apply (A02_q_clamp_mid 5277096028428841 140737488355328 5277096028428841 140737488355328); vm_compute; reflexivity. Qed.
Lemma d_A02_303c : close ctol (2391950297768805 / 35184372088832) (clamp A02_lo A02_hi (2391950297768805 / 35184372088832)).
Proof. apply (A02_q_clamp_mid 2391950297768805 35184372088832 2391950297768805 35184372088832); vm_compute; reflexivity. Qed.
Lemma d_A02_311c : close ctol (1500645915137791 / 17592186044416) (clamp A02_lo A02_hi (1500645915137791 / 17592186044416)).
Proof. apply (A02_q_clamp_mid 1500645915137791 17592186044416 1500645915137791 17592186044416); vm_compute; reflexivity. Qed.
Lemma d_A02_319c : close ctol (4876447763994193 / 70368744177664) (clamp A02_lo A02_hi (4876447763994193 / 70368744177664)).
Proof. apply (A02_q_clamp_mid 4876447763994193 70368744177664 4876447763994193 70368744177664); vm_compute; reflexivity. Qed.
Lemma d_A02_327c : close ctol (3098456082964169 / 35184372088832) (clamp A02_lo A02_hi (3098456082964169 / 35184372088832)).
Proof. apply (A02_q_clamp_mid 3098456082964169 35184372088832 3098456082964169 35184372088832); vm_compute; reflexivity. Qed.
Lemma d_A02_335c : close ctol (7493656469298099 / 140737488355328) (clamp A02_lo A02_hi (1873414117324525 / 35184372088832)).
Proof. apply (A02_q_clamp_mid 1873414117324525 35184372088832 7493656469298099 140737488355328); vm_compute; reflexivity. Qed.
Lemma d_A02_343c : close ctol (1143765933701875 / 8796093022208) (clamp A02_lo A02_hi (1143765933701875 / 8796093022208)).
Proof. apply (A02_q_clamp_mid 1143765933701875 8796093022208 1143765933701875 8796093022208); vm_compute; reflexivity. Qed.
Lemma d_A02_351c : close ctol (4557415776981371 / 35184372088832) (clamp A02_lo A02_hi (2278707888490685 / 17592186044416)).
Proof. apply (A02_q_clamp_mid 2278707888490685 17592186044416 4557415776981371 35184372088832); vm_compute; reflexivity. Qed.
Lemma d_A02_359c : close ctol (620218364492203 / 4398046511104) (clamp A02_lo A02_hi (620218364492203 / 4398046511104)).
Proof. apply (A02_q_clamp_mid 620218364492203 4398046511104 620218364492203 4398046511104); vm_compute; reflexivity. Qed.
Lemma d_A02_367c : close ctol (5050760393341855 / 35184372088832) (clamp A02_lo A02_hi (5050760393341855 / 35184372088832)).
Proof. apply (A02_q_clamp_mid 5050760393341855 35184372088832 5050760393341855 35184372088832); vm_compute; reflexivity. Qed.
Lemma d_A02_375c : close ctol (145 / 1) (clamp A02_lo A02_hi (5708130247241151 / 137438953472)).
Proof. apply (A02_q_clamp_hi 5708130247241151 137438953472 145 1); vm_compute; reflexivity. Qed.
Lemma d_A02_383c : close ctol (145 / 1) (clamp A02_lo A02_hi (3691023008675045 / 8796093022208)).
Proof. apply (A02_q_clamp_hi 3691023008675045 8796093022208 145 1); vm_compute; reflexivity. Qed.
Lemma d_A02_391c : close ctol (851596514374387 / 8796093022208) (clamp A02_lo A02_hi (851596514374387 / 8796093022208)).
Proof. apply (A02_q_clamp_mid 851596514374387 8796093022208 851596514374387 8796093022208); vm_compute; reflexivity. Qed.
Lemma d_A02_399c : close ctol (2546220660031989 / 17592186044416) (clamp A02_lo A02_hi (2546220660031989 / 17592186044416)).
Proof. apply (A02_q_clamp_mid 2546220660031989 17592186044416 2546220660031989 17592186044416); vm_compute; reflexivity. Qed.
Lemma d_A02_407c : close ctol (5367314853230835 / 70368744177664) (clamp A02_lo A02_hi (5367314853230835 / 70368744177664)).
Proof. apply (A02_q_clamp_mid 5367314853230835 70368744177664 5367314853230835 70368744177664); vm_compute; reflexivity. Qed.
Lemma d_A02_415c : close ctol (24 / 1) (clamp A02_lo A02_hi (24 / 1)).
Proof. apply (A02_q_clamp_mid 24 1 24 1); vm_compute; reflexivity. Qed.
Lemma d_A02_423c : close ctol (145 / 1) (clamp A02_lo A02_hi (319195755740675 / 549755813888)).
Proof. apply (A02_q_clamp_hi 319195755740675 549755813888 145 1); vm_compute; reflexivity. Qed.
Lemma d_A02_431c : close ctol (1278002759725629 / 17592186044416) (clamp A02_lo A02_hi (1278002759725629 / 17592186044416)).
Proof. apply (A02_q_clamp_mid 1278002759725629 17592186044416 1278002759725629 17592186044416); vm_compute; reflexivity. Qed.
Lemma d_A02_439c : close ctol (1513875519791021 / 17592186044416) (clamp A02_lo A02_hi (1513875519791021 / 17592186044416)).
Proof. apply (A02_q_clamp_mid 1513875519791021 17592186044416 1513875519791021 17592186044416); vm_compute; reflexivity. Qed.
Lemma d_A02_447c : close ctol (45 / 2) (clamp A02_lo A02_hi (4102010803670101 / 281474976710656)).
Proof. apply (A02_q_clamp_lo 4102010803670101 281474976710656 45 2); vm_compute; reflexivity. Qed.
Lemma d_A02_455c : close ctol (308769333534765 / 4398046511104) (clamp A02_lo A02_hi (308769333534765 / 4398046511104)).
Proof. apply (A02_q_clamp_mid 308769333534765 4398046511104 308769333534765 4398046511104); vm_compute; reflexivity. Qed.
Lemma d_A02_463c : close ctol (45 / 2) (clamp A02_lo A02_hi (801120656302947 / 281474976710656)).
Proof. apply (A02_q_clamp_lo 801120656302947 281474976710656 45 2); vm_compute; reflexivity. Qed.
Lemma d_A02_471c : close ctol (145 / 1) (clamp A02_lo A02_hi (22041986973989 / 68719476736)).
Proof. apply (A02_q_clamp_hi 22041986973989 68719476736 145 1); vm_compute; reflexivity. Qed.
Lemma d_A02_479c : close ctol (145 / 1) (clamp A02_lo A02_hi (7087857860981019 / 17592186044416)).
Proof. apply (A02_q_clamp_hi 7087857860981019 17592186044416 145 1); vm_compute; reflexivity. Qed.
Lemma d_A02_487c : close ctol (621211750125407 / 4398046511104) (clamp A02_lo A02_hi (621211750125407 / 4398046511104)).
Proof. apply (A02_q_clamp_mid 621211750125407 4398046511104 621211750125407 4398046511104); vm_compute; reflexivity. Qed.
Lemma d_A02_495c : close ctol (8983226405185913 / 281474976710656) (clamp A02_lo A02_hi (4491613202592957 / 140737488355328)).
Proof. apply (A02_q_clamp_mid 4491613202592957 140737488355328 8983226405185913 281474976710656); vm_compute; reflexivity. Qed.
Lemma d_A02_503c : close ctol (2158816362054651 / 17592186044416) (clamp A02_lo A02_hi (8635265448218605 / 70368744177664)).
Proof. apply (A02_q_clamp_mid 8635265448218605 70368744177664 2158816362054651 17592186044416); vm_compute; reflexivity. Qed.
Lemma d_A02_511c : close ctol (145 / 1) (clamp A02_lo A02_hi (5464930102993781 / 17592186044416)).
Proof. apply (A02_q_clamp_hi 5464930102993781 17592186044416 145 1); vm_compute; reflexivity. Qed.
Lemma d_A02_519c : close ctol (145 / 1) (clamp A02_lo A02_hi (6688013260038631 / 549755813888)).
Proof. apply (A02_q_clamp_hi 6688013260038631 549755813888 145 1); vm_compute; reflexivity. Qed.
Lemma d_A02_527c : close ctol (5317212574852757 / 70368744177664) (clamp A02_lo A02_hi (5317212574852757 / 70368744177664)).
Proof. apply (A02_q_clamp_mid 5317212574852757 70368744177664 5317212574852757 70368744177664); vm_compute; reflexivity. Qed.
Lemma d_A02_535c : close ctol (2309422679707467 / 17592186044416) (clamp A02_lo A02_hi (2309422679707467 / 17592186044416)).
Proof. apply (A02_q_clamp_mid 2309422679707467 17592186044416 2309422679707467 17592186044416); vm_compute; reflexivity. Qed.
Lemma d_A02_543c : close ctol (145 / 1) (clamp A02_lo A02_hi (6148302945689905 / 17592186044416)).
Proof. apply (A02_q_clamp_hi 6148302945689905 17592186044416 145 1); vm_compute; reflexivity. Qed.
Lemma d_A02_551c : close ctol (7758849465317209 / 140737488355328) (clamp A02_lo A02_hi (969856183164651 / 17592186044416)).
Proof. apply (A02_q_clamp_mid 969856183164651 17592186044416 7758849465317209 140737488355328); vm_compute; reflexivity. Qed.
Lemma d_A02_559c : close ctol (145 / 1) (clamp A02_lo A02_hi (204218827044535 / 549755813888)).
Proof. apply (A02_q_clamp_hi 204218827044535 549755813888 145 1); vm_compute; reflexivity. Qed.
Lemma d_A02_567c : close ctol (45 / 2) (clamp A02_lo A02_hi (3574971453875097 / 281474976710656)).
Proof. apply (A02_q_clamp_lo 3574971453875097 281474976710656 45 2); vm_compute; reflexivity. Qed.
Lemma d_A02_575c : close ctol (3344633662092301 / 70368744177664) (clamp A02_lo A02_hi (3344633662092301 / 70368744177664)).
Proof. apply (A02_q_clamp_mid 3344633662092301 70368744177664 3344633662092301 70368744177664); vm_compute; reflexivity. Qed.
Lemma d_A02_583c : close ctol (45 / 2) (clamp A02_lo A02_hi (1672546643088323 / 140737488355328)).
Proof. apply (A02_q_clamp_lo 1672546643088323 140737488355328 45 2); vm_compute; reflexivity. Qed.
Lemma d_A02_591c : close ctol (5141747008840373 / 70368744177664) (clamp A02_lo A02_hi (5141747008840373 / 70368744177664)).
Proof. apply (A02_q_clamp_mid 5141747008840373 70368744177664 5141747008840373 70368744177664); vm_compute; reflexivity. Qed.
Lemma d_A02_599c : close ctol (45 / 2) (clamp A02_lo A02_hi (4390166793035091 / 2305843009213693952)).
Proof. apply (A02_q_clamp_lo 4390166793035091 2305843009213693952 45 2); vm_compute; reflexivity. Qed.
Lemma d_A02_607c : close ctol (2544776384533179 / 17592186044416) (clamp A02_lo A02_hi (2544776384533179 / 17592186044416)).
Proof. apply (A02_q_clamp_mid 2544776384533179 17592186044416 2544776384533179 17592186044416); vm_compute; reflexivity. Qed.
Lemma d_A02_615c : close ctol (56766592352303 / 1099511627776) (clamp A02_lo A02_hi (7266123821094783 / 140737488355328)).
Proof. apply (A02_q_clamp_mid 7266123821094783 140737488355328 56766592352303 1099511627776); vm_compute; reflexivity. Qed.
Lemma d_A02_623c : close ctol (877764814927347 / 8796093022208) (clamp A02_lo A02_hi (877764814927347 / 8796093022208)).
Proof. apply (A02_q_clamp_mid 877764814927347 8796093022208 877764814927347 8796093022208); vm_compute; reflexivity. Qed.
Lemma d_A02_631c : close ctol (2530928306853169 / 17592186044416) (clamp A02_lo A02_hi (2530928306853169 / 17592186044416)).
Proof. apply (A02_q_clamp_mid 2530928306853169 17592186044416 2530928306853169 17592186044416); vm_compute; reflexivity. Qed.
Lemma d_A02_639c : close ctol (45 / 2) (clamp A02_lo A02_hi ((-1455473072359285) / 562949953421312)).
Proof. apply (A02_q_clamp_lo (-1455473072359285) 562949953421312 45 2); vm_compute; reflexivity. Qed.
Lemma d_A02_647c : close ctol (145 / 1) (clamp A02_lo A02_hi (1091444085234987 / 4398046511104)).
Proof. apply (A02_q_clamp_hi 1091444085234987 4398046511104 145 1); vm_compute; reflexivity. Qed.
Lemma d_A02_655c : close ctol (145 / 1) (clamp A02_lo A02_hi (4579607412190219 / 17592186044416)).
Proof. apply (A02_q_clamp_hi 4579607412190219 17592186044416 145 1); vm_compute; reflexivity. Qed.
Lemma d_A02_663c : close ctol (45 / 2) (clamp A02_lo A02_hi (780481830962773 / 35184372088832)).
Proof. apply (A02_q_clamp_lo 780481830962773 35184372088832 45 2); vm_compute; reflexivity. Qed.
Lemma r_A21_439 : rio_reads A21_c A21_e A21_lo A21_hi floor_volts ctol (Build_rio (Fin ((-179769313486231570814527423731704356798070567525844996598917476803157260780028538760589558632766878171540458953514382464234321326889464182768467546703537516986049910576551282076245490090389328944075868508455133942304583236903222948165808559332123348274797826204144723168738177180919299881250404026184124858368) / 1)) (Fin ((-1) / 1)) (Fin (3715469692580659 / 1125899906842624)) (Fin (6 / 1)) (Fin (12 / 1)) true true true ((Fin (0 / 1)) :: (Fin (0 / 1)) :: (Fin (0 / 1)) :: (Fin (0 / 1)) :: (Fin (27 / 4)) :: (Fin (45 / 1)) :: nil)) (5749786070656609 / 281474976710656).
Proof. apply (A21_rio_fin _ ((-179769313486231570814527423731704356798070567525844996598917476803157260780028538760589558632766878171540458953514382464234321326889464182768467546703537516986049910576551282076245490090389328944075868508455133942304583236903222948165808559332123348274797826204144723168738177180919299881250404026184124858368) / 1)); [reflexivity | apply (A21_q_floor (-179769313486231570814527423731704356798070567525844996598917476803157260780028538760589558632766878171540458953514382464234321326889464182768467546703537516986049910576551282076245490090389328944075868508455133942304583236903222948165808559332123348274797826204144723168738177180919299881250404026184124858368) 1 5749786070656609 281474976710656); vm_compute; reflexivity]. Qed.
Lemma r_A21_829 : rio_reads A21_c A21_e A21_lo A21_hi floor_volts ctol (Build_rio (Fin (1529589667201105 / 1180591620717411303424)) (Fin (5209 / 1024)) (Fin (3649 / 1024)) (Fin (6 / 1)) (Fin (12329 / 1024)) false false false ((Fin (57 / 256)) :: (Fin (1347 / 1024)) :: (Fin (21 / 64)) :: (Fin (170617 / 1024)) :: (Fin (7777 / 1024)) :: (Fin (8423 / 1024)) :: nil)) (80 / 1).
Proof. apply (A21_rio_fin _ (1529589667201105 / 1180591620717411303424)); [reflexivity | apply (A21_q_floor 1529589667201105 1180591620717411303424 80 1); vm_compute; reflexivity]. Qed.
Lemma d_A21_673c : close ctol (10 / 1) (clamp A21_lo A21_hi (5 / 1)).
Proof. apply (A21_q_clamp_lo 5 1 10 1); vm_compute; reflexivity. Qed.
Lemma d_A21_681c : close ctol (80 / 1) (clamp A21_lo A21_hi (80 / 1)).
Proof. apply (A21_q_clamp_hi 80 1 80 1); vm_compute; reflexivity. Qed.
Lemma d_A21_689c : close ctol (10 / 1) (clamp A21_lo A21_hi ((-5) / 1)).
Proof. apply (A21_q_clamp_lo (-5) 1 10 1); vm_compute; reflexivity. Qed.
Lemma d_A21_697c : close ctol (25 / 1) (clamp A21_lo A21_hi (25 / 1)).
Proof. apply (A21_q_clamp_mid 25 1 25 1); vm_compute; reflexivity. Qed.
Lemma d_A21_705c : close ctol (80 / 1) (clamp A21_lo A21_hi (1000000000000000052504760255204420248704468581108159154915854115511802457988908195786371375080447864043704443832883878176942523235360430575644792184786706982848387200926575803737830233794788090059368953234970799945081119038967640880074652742780142494579258788820056842838115669472196386865459400540160 / 1)).
Proof. apply (A21_q_clamp_hi 1000000000000000052504760255204420248704468581108159154915854115511802457988908195786371375080447864043704443832883878176942523235360430575644792184786706982848387200926575803737830233794788090059368953234970799945081119038967640880074652742780142494579258788820056842838115669472196386865459400540160 1 80 1); vm_compute; reflexivity. Qed.
Lemma d_A21_714c : close ctol (80 / 1) (clamp A21_lo A21_hi (5629499534213121 / 70368744177664)).
Proof. apply (A21_q_clamp_hi 5629499534213121 70368744177664 80 1); vm_compute; reflexivity. Qed.
Lemma d_A21_722c : close ctol (11 / 1) (clamp A21_lo A21_hi (11 / 1)).
Proof. apply (A21_q_clamp_mid 11 1 11 1); vm_compute; reflexivity. Qed.
Lemma d_A21_730c : close ctol (10 / 1) (clamp A21_lo A21_hi (1200819285220089 / 140737488355328)).
Proof. apply (A21_q_clamp_lo 1200819285220089 140737488355328 10 1); vm_compute; reflexivity. Qed.
Lemma d_A21_738c : close ctol (5378292673297265 / 70368744177664) (clamp A21_lo A21_hi (5378292673297265 / 70368744177664)).
Proof. apply (A21_q_clamp_mid 5378292673297265 70368744177664 5378292673297265 70368744177664); vm_compute; reflexivity. Qed.
Lemma d_A21_746c : close ctol (4845034034712211 / 70368744177664) (clamp A21_lo A21_hi (4845034034712211 / 70368744177664)).
Proof. apply (A21_q_clamp_mid 4845034034712211 70368744177664 4845034034712211 70368744177664); vm_compute; reflexivity. Qed.
Lemma d_A21_754c : close ctol (10 / 1) (clamp A21_lo A21_hi (498284858283037 / 140737488355328)).
Proof. apply (A21_q_clamp_lo 498284858283037 140737488355328 10 1); vm_compute; reflexivity. Qed.
Lemma d_A21_762c : close ctol (2492140727552655 / 140737488355328) (clamp A21_lo A21_hi (2492140727552655 / 140737488355328)).
Proof. apply (A21_q_clamp_mid 2492140727552655 140737488355328 2492140727552655 140737488355328); vm_compute; reflexivity. Qed.
Lemma d_A21_770c : close ctol (10 / 1) (clamp A21_lo A21_hi (4 / 1)).
Proof. apply (A21_q_clamp_lo 4 1 10 1); vm_compute; reflexivity. Qed.
Lemma d_A21_778c : close ctol (1197973488939727 / 17592186044416) (clamp A21_lo A21_hi (1197973488939727 / 17592186044416)).
Proof. apply (A21_q_clamp_mid 1197973488939727 17592186044416 1197973488939727 17592186044416); vm_compute; reflexivity. Qed.
Lemma d_A21_786c : close ctol (5289220528652869 / 281474976710656) (clamp A21_lo A21_hi (2644610264326435 / 140737488355328)).
Proof. apply (A21_q_clamp_mid 2644610264326435 140737488355328 5289220528652869 281474976710656); vm_compute; reflexivity. Qed.
Lemma d_A21_794c : close ctol (4091049399251119 / 140737488355328) (clamp A21_lo A21_hi (4091049399251119 / 140737488355328)).
Proof. apply (A21_q_clamp_mid 4091049399251119 140737488355328 4091049399251119 140737488355328); vm_compute; reflexivity. Qed.
Lemma d_A21_802c : close ctol (80 / 1) (clamp A21_lo A21_hi (2878738725540581 / 17592186044416)).
Proof. apply (A21_q_clamp_hi 2878738725540581 17592186044416 80 1); vm_compute; reflexivity. Qed.
Lemma d_A21_810c : close ctol (80 / 1) (clamp A21_lo A21_hi (613150133857673 / 4398046511104)).
Proof. apply (A21_q_clamp_hi 613150133857673 4398046511104 80 1); vm_compute; reflexivity. Qed.
Lemma d_A21_818c : close ctol (2465922536672661 / 35184372088832) (clamp A21_lo A21_hi (2465922536672661 / 35184372088832)).
Proof. apply (A21_q_clamp_mid 2465922536672661 35184372088832 2465922536672661 35184372088832); vm_compute; reflexivity. Qed.
Lemma d_A21_826c : close ctol (2358508085218839 / 35184372088832) (clamp A21_lo A21_hi (2358508085218839 / 35184372088832)).
Proof. apply (A21_q_clamp_mid 2358508085218839 35184372088832 2358508085218839 35184372088832); vm_compute; reflexivity. Qed.
Lemma d_A21_834c : close ctol (10 / 1) (clamp A21_lo A21_hi (1473854617445141 / 1125899906842624)).
Proof. apply (A21_q_clamp_lo 1473854617445141 1125899906842624 10 1); vm_compute; reflexivity. Qed.
Lemma d_A21_842c : close ctol (10 / 1) (clamp A21_lo A21_hi (1165882549804507 / 140737488355328)).
Proof. apply (A21_q_clamp_lo 1165882549804507 140737488355328 10 1); vm_compute; reflexivity. Qed.
Lemma d_A21_850c : close ctol (5139151137620199 / 70368744177664) (clamp A21_lo A21_hi (2569575568810099 / 35184372088832)).
Proof. apply (A21_q_clamp_mid 2569575568810099 35184372088832 5139151137620199 70368744177664); vm_compute; reflexivity. Qed.
Lemma d_A21_858c : close ctol (8797847478313623 / 140737488355328) (clamp A21_lo A21_hi (8797847478313621 / 140737488355328)).
Proof. apply (A21_q_clamp_mid 8797847478313621 140737488355328 8797847478313623 140737488355328); vm_compute; reflexivity. Qed.
Lemma d_A21_866c : close ctol (80 / 1) (clamp A21_lo A21_hi (2661155068907275 / 17592186044416)).
Proof. apply (A21_q_clamp_hi 2661155068907275 17592186044416 80 1); vm_compute; reflexivity. Qed.
Lemma d_A21_874c : close ctol (8808190555392571 / 281474976710656) (clamp A21_lo A21_hi (8808190555392571 / 281474976710656)).
Proof. apply (A21_q_clamp_mid 8808190555392571 281474976710656 8808190555392571 281474976710656); vm_compute; reflexivity. Qed.
Lemma d_A21_882c : close ctol (80 / 1) (clamp A21_lo A21_hi (808065589029505 / 4398046511104)).
Proof. apply (A21_q_clamp_hi 808065589029505 4398046511104 80 1); vm_compute; reflexivity. Qed.
Lemma d_A21_890c : close ctol (2903512780807797 / 140737488355328) (clamp A21_lo A21_hi (2903512780807797 / 140737488355328)).
Proof. apply (A21_q_clamp_mid 2903512780807797 140737488355328 2903512780807797 140737488355328); vm_compute; reflexivity. Qed.
Lemma d_A21_898c : close ctol (2635652973187677 / 70368744177664) (clamp A21_lo A21_hi (2635652973187677 / 70368744177664)).
Proof. apply (A21_q_clamp_mid 2635652973187677 70368744177664 2635652973187677 70368744177664); vm_compute; reflexivity. Qed.
Lemma d_A21_906c : close ctol (6108419433043061 / 140737488355328) (clamp A21_lo A21_hi (1527104858260765 / 35184372088832)).
Proof. apply (A21_q_clamp_mid 1527104858260765 35184372088832 6108419433043061 140737488355328); vm_compute; reflexivity. Qed.
Lemma d_A21_914c : close ctol (2493314420201601 / 70368744177664) (clamp A21_lo A21_hi (2493314420201601 / 70368744177664)).
Proof. apply (A21_q_clamp_mid 2493314420201601 70368744177664 2493314420201601 70368744177664); vm_compute; reflexivity. Qed.
Lemma d_A21_922c : close ctol (3609195279857059 / 70368744177664) (clamp A21_lo A21_hi (3609195279857059 / 70368744177664)).
Proof. apply (A21_q_clamp_mid 3609195279857059 70368744177664 3609195279857059 70368744177664); vm_compute; reflexivity. Qed.
Lemma d_A21_930c : close ctol (6183566893117243 / 562949953421312) (clamp A21_lo A21_hi (1545891723279311 / 140737488355328)).
Proof. apply (A21_q_clamp_mid 1545891723279311 140737488355328 6183566893117243 562949953421312); vm_compute; reflexivity. Qed.
Lemma d_A21_938c : close ctol (5458515664370013 / 70368744177664) (clamp A21_lo A21_hi (5458515664370013 / 70368744177664)).
Proof. apply (A21_q_clamp_mid 5458515664370013 70368744177664 5458515664370013 70368744177664); vm_compute; reflexivity. Qed.
Lemma d_A21_946c : close ctol (4760306783263873 / 281474976710656) (clamp A21_lo A21_hi (4760306783263873 / 281474976710656)).
Proof. apply (A21_q_clamp_mid 4760306783263873 281474976710656 4760306783263873 281474976710656); vm_compute; reflexivity. Qed.
Lemma d_A21_954c : close ctol (121539599332837 / 4398046511104) (clamp A21_lo A21_hi (121539599332837 / 4398046511104)).
Proof. apply (A21_q_clamp_mid 121539599332837 4398046511104 121539599332837 4398046511104); vm_compute; reflexivity. Qed.
Lemma d_A21_962c : close ctol (2061814617382869 / 35184372088832) (clamp A21_lo A21_hi (8247258469531477 / 140737488355328)).
Proof. apply (A21_q_clamp_mid 8247258469531477 140737488355328 2061814617382869 35184372088832); vm_compute; reflexivity. Qed.
Lemma d_A21_970c : close ctol (1888378810541431 / 70368744177664) (clamp A21_lo A21_hi (1888378810541431 / 70368744177664)).
Proof. apply (A21_q_clamp_mid 1888378810541431 70368744177664 1888378810541431 70368744177664); vm_compute; reflexivity. Qed.
Lemma d_A21_978c : close ctol (4823838430217165 / 140737488355328) (clamp A21_lo A21_hi (4823838430217165 / 140737488355328)).
Proof. apply (A21_q_clamp_mid 4823838430217165 140737488355328 4823838430217165 140737488355328); vm_compute; reflexivity. Qed.
Lemma d_A21_986c : close ctol (6785366326511831 / 140737488355328) (clamp A21_lo A21_hi (3392683163255915 / 70368744177664)).
Proof. apply (A21_q_clamp_mid 3392683163255915 70368744177664 6785366326511831 140737488355328); vm_compute; reflexivity. Qed.
Lemma d_A21_994c : close ctol (3581585770035561 / 70368744177664) (clamp A21_lo A21_hi (3581585770035561 / 70368744177664)).
Proof. apply (A21_q_clamp_mid 3581585770035561 70368744177664 3581585770035561 70368744177664); vm_compute; reflexivity. Qed.
Lemma d_A21_1002c : close ctol (1173861270477303 / 17592186044416) (clamp A21_lo A21_hi (1173861270477303 / 17592186044416)).
Proof. apply (A21_q_clamp_mid 1173861270477303 17592186044416 1173861270477303 17592186044416); vm_compute; reflexivity. Qed.
Lemma d_A21_1010c : close ctol (10 / 1) (clamp A21_lo A21_hi (882494527350899 / 1125899906842624)).
Proof. apply (A21_q_clamp_lo 882494527350899 1125899906842624 10 1); vm_compute; reflexivity. Qed.
Lemma d_A21_1018c : close ctol (10 / 1) (clamp A21_lo A21_hi (51886034413869 / 562949953421312)).
Proof. apply (A21_q_clamp_lo 51886034413869 562949953421312 10 1); vm_compute; reflexivity. Qed.
Lemma d_A21_1026c : close ctol (8886143745066165 / 281474976710656) (clamp A21_lo A21_hi (8886143745066165 / 281474976710656)).
Proof. apply (A21_q_clamp_mid 8886143745066165 281474976710656 8886143745066165 281474976710656); vm_compute; reflexivity. Qed.
Lemma d_A21_1034c : close ctol (10 / 1) (clamp A21_lo A21_hi ((-2597284438827609) / 1125899906842624)).
Proof. apply (A21_q_clamp_lo (-2597284438827609) 1125899906842624 10 1); vm_compute; reflexivity. Qed.
Lemma d_A21_1042c : close ctol (2736373562351293 / 140737488355328) (clamp A21_lo A21_hi (2736373562351293 / 140737488355328)).
Proof. apply (A21_q_clamp_mid 2736373562351293 140737488355328 2736373562351293 140737488355328); vm_compute; reflexivity. Qed.
Lemma d_A21_1050c : close ctol (1014975762801659 / 35184372088832) (clamp A21_lo A21_hi (8119806102413273 / 281474976710656)).
Proof. apply (A21_q_clamp_mid 8119806102413273 281474976710656 1014975762801659 35184372088832); vm_compute; reflexivity. Qed.
Lemma d_A21_1058c : close ctol (5380295379301129 / 281474976710656) (clamp A21_lo A21_hi (2690147689650565 / 140737488355328)).
Proof. apply (A21_q_clamp_mid 2690147689650565 140737488355328 5380295379301129 281474976710656); vm_compute; reflexivity. Qed.
Lemma d_A21_1066c : close ctol (10 / 1) (clamp A21_lo A21_hi (1734798427717955 / 562949953421312)).
Proof. apply (A21_q_clamp_lo 1734798427717955 562949953421312 10 1); vm_compute; reflexivity. Qed.
Lemma d_A21_1074c : close ctol (2279083867796217 / 70368744177664) (clamp A21_lo A21_hi (2279083867796217 / 70368744177664)).
Proof. apply (A21_q_clamp_mid 2279083867796217 70368744177664 2279083867796217 70368744177664); vm_compute; reflexivity. Qed.
Lemma d_A21_1082c : close ctol (80 / 1) (clamp A21_lo A21_hi (2285778318711089 / 17592186044416)).
Proof. apply (A21_q_clamp_hi 2285778318711089 17592186044416 80 1); vm_compute; reflexivity. Qed.
Lemma d_A21_1090c : close ctol (7534750545257531 / 140737488355328) (clamp A21_lo A21_hi (7534750545257531 / 140737488355328)).
Proof. apply (A21_q_clamp_mid 7534750545257531 140737488355328 7534750545257531 140737488355328); vm_compute; reflexivity. Qed.
Lemma d_A21_1098c : close ctol (64 / 1) (clamp A21_lo A21_hi (64 / 1)).
Proof. apply (A21_q_clamp_mid 64 1 64 1); vm_compute; reflexivity. Qed.
Lemma d_A21_1106c : close ctol (153612047854651 / 2199023255552) (clamp A21_lo A21_hi (153612047854651 / 2199023255552)).
Proof. apply (A21_q_clamp_mid 153612047854651 2199023255552 153612047854651 2199023255552); vm_compute; reflexivity. Qed.
Lemma d_A21_1114c : close ctol (80 / 1) (clamp A21_lo A21_hi (679425389603735 / 4398046511104)).
Proof. apply (A21_q_clamp_hi 679425389603735 4398046511104 80 1); vm_compute; reflexivity. Qed.
Lemma d_A21_1122c : close ctol (10 / 1) (clamp A21_lo A21_hi ((-2868592983343709) / 2251799813685248)).
Proof. apply (A21_q_clamp_lo (-2868592983343709) 2251799813685248 10 1); vm_compute; reflexivity. Qed.
Lemma d_A21_1130c : close ctol (10 / 1) (clamp A21_lo A21_hi ((-7874144502292349) / 2251799813685248)).
Proof. apply (A21_q_clamp_lo (-7874144502292349) 2251799813685248 10 1); vm_compute; reflexivity. Qed.
Lemma d_A21_1138c : close ctol (1296848083308559 / 17592186044416) (clamp A21_lo A21_hi (1296848083308559 / 17592186044416)).
Proof. apply (A21_q_clamp_mid 1296848083308559 17592186044416 1296848083308559 17592186044416); vm_compute; reflexivity. Qed.
Lemma d_A21_1146c : close ctol (4872833516647737 / 70368744177664) (clamp A21_lo A21_hi (609104189580967 / 8796093022208)).
Proof. apply (A21_q_clamp_mid 609104189580967 8796093022208 4872833516647737 70368744177664); vm_compute; reflexivity. Qed.
Lemma d_A21_1154c : close ctol (80 / 1) (clamp A21_lo A21_hi (500866931824705 / 2199023255552)).
Proof. apply (A21_q_clamp_hi 500866931824705 2199023255552 80 1); vm_compute; reflexivity. Qed.
Lemma d_A21_1162c : close ctol (10 / 1) (clamp A21_lo A21_hi (4241311399874209 / 562949953421312)).
Proof. apply (A21_q_clamp_lo 4241311399874209 562949953421312 10 1); vm_compute; reflexivity. Qed.
Lemma d_A21_1170c : close ctol (792726891139219 / 35184372088832) (clamp A21_lo A21_hi (6341815129113751 / 281474976710656)).
Proof. apply (A21_q_clamp_mid 6341815129113751 281474976710656 792726891139219 35184372088832); vm_compute; reflexivity. Qed.
Lemma d_A21_1178c : close ctol (5584594444363799 / 70368744177664) (clamp A21_lo A21_hi (5584594444363799 / 70368744177664)).
Proof. apply (A21_q_clamp_mid 5584594444363799 70368744177664 5584594444363799 70368744177664); vm_compute; reflexivity. Qed.
Lemma d_A21_1186c : close ctol (1452532291674715 / 140737488355328) (clamp A21_lo A21_hi (5810129166698861 / 562949953421312)).
Proof. apply (A21_q_clamp_mid 5810129166698861 562949953421312 1452532291674715 140737488355328); vm_compute; reflexivity. Qed.
Lemma d_A21_1194c : close ctol (4697359169556283 / 70368744177664) (clamp A21_lo A21_hi (2348679584778141 / 35184372088832)).
Proof. apply (A21_q_clamp_mid 2348679584778141 35184372088832 4697359169556283 70368744177664); vm_compute; reflexivity. Qed.
Lemma d_A21_1202c : close ctol (80 / 1) (clamp A21_lo A21_hi (124 / 1)).
Proof. apply (A21_q_clamp_hi 124 1 80 1); vm_compute; reflexivity. Qed.
Lemma d_A21_1210c : close ctol (7485681426320217 / 140737488355328) (clamp A21_lo A21_hi (3742840713160109 / 70368744177664)).
Proof. apply (A21_q_clamp_mid 3742840713160109 70368744177664 7485681426320217 140737488355328); vm_compute; reflexivity. Qed.
Lemma d_A21_1218c : close ctol (10 / 1) (clamp A21_lo A21_hi (7969549291951719 / 2251799813685248)).
Proof. apply (A21_q_clamp_lo 7969549291951719 2251799813685248 10 1); vm_compute; reflexivity. Qed.
Lemma d_A21_1226c : close ctol (1842503966944861 / 35184372088832) (clamp A21_lo A21_hi (7370015867779443 / 140737488355328)).
Proof. apply (A21_q_clamp_mid 7370015867779443 140737488355328 1842503966944861 35184372088832); vm_compute; reflexivity. Qed.
Lemma d_A21_1234c : close ctol (8448408733364359 / 140737488355328) (clamp A21_lo A21_hi (1056051091670545 / 17592186044416)).
Proof. apply (A21_q_clamp_mid 1056051091670545 17592186044416 8448408733364359 140737488355328); vm_compute; reflexivity. Qed.
Lemma d_A21_1242c : close ctol (10 / 1) (clamp A21_lo A21_hi (1145117538673527 / 2251799813685248)).
Proof. apply (A21_q_clamp_lo 1145117538673527 2251799813685248 10 1); vm_compute; reflexivity. Qed.
Lemma d_A21_1250c : close ctol (3379023501740609 / 140737488355328) (clamp A21_lo A21_hi (6758047003481217 / 281474976710656)).
Proof. apply (A21_q_clamp_mid 6758047003481217 281474976710656 3379023501740609 140737488355328); vm_compute; reflexivity. Qed.
Lemma d_A21_1258c : close ctol (3259060253888159 / 281474976710656) (clamp A21_lo A21_hi (6518120507776319 / 562949953421312)).
Proof. apply (A21_q_clamp_mid 6518120507776319 562949953421312 3259060253888159 281474976710656); vm_compute; reflexivity. Qed.
Lemma d_A21_1266c : close ctol (80 / 1) (clamp A21_lo A21_hi (4144409258581273 / 35184372088832)).
Proof. apply (A21_q_clamp_hi 4144409258581273 35184372088832 80 1); vm_compute; reflexivity. Qed.
Lemma d_A21_1274c : close ctol (4866225524638367 / 70368744177664) (clamp A21_lo A21_hi (2433112762319183 / 35184372088832)).
Proof. apply (A21_q_clamp_mid 2433112762319183 35184372088832 4866225524638367 70368744177664); vm_compute; reflexivity. Qed.
Lemma d_A21_1282c : close ctol (4281605895702825 / 70368744177664) (clamp A21_lo A21_hi (535200736962853 / 8796093022208)).
Proof. apply (A21_q_clamp_mid 535200736962853 8796093022208 4281605895702825 70368744177664); vm_compute; reflexivity. Qed.
Lemma d_A21_1290c : close ctol (80 / 1) (clamp A21_lo A21_hi (3008229188813823 / 17592186044416)).
Proof. apply (A21_q_clamp_hi 3008229188813823 17592186044416 80 1); vm_compute; reflexivity. Qed.
Lemma d_A21_1298c : close ctol (8753449903824291 / 140737488355328) (clamp A21_lo A21_hi (8753449903824291 / 140737488355328)).
Proof. apply (A21_q_clamp_mid 8753449903824291 140737488355328 8753449903824291 140737488355328); vm_compute; reflexivity. Qed.
Lemma d_A21_1306c : close ctol (57294686746285 / 1099511627776) (clamp A21_lo A21_hi (57294686746285 / 1099511627776)).
Proof. apply (A21_q_clamp_mid 57294686746285 1099511627776 57294686746285 1099511627776); vm_compute; reflexivity. Qed.
Lemma d_A21_1314c : close ctol (80 / 1) (clamp A21_lo A21_hi (88 / 1)).
Proof. apply (A21_q_clamp_hi 88 1 80 1); vm_compute; reflexivity. Qed.
Lemma d_A21_1322c : close ctol (80 / 1) (clamp A21_lo A21_hi (121 / 1)).
Proof. apply (A21_q_clamp_hi 121 1 80 1); vm_compute; reflexivity. Qed.
Lemma d_A21_1330c : close ctol (4814054951384713 / 70368744177664) (clamp A21_lo A21_hi (601756868923089 / 8796093022208)).
Proof. apply (A21_q_clamp_mid 601756868923089 8796093022208 4814054951384713 70368744177664); vm_compute; reflexivity. Qed.
Lemma r_A41_865 : rio_reads A41_c A41_e A41_lo A41_hi floor_volts ctol (Build_rio (Fin (253 / 25300281663413827294061918339864663381194581220517764794612669753428792445999418361495047962679640561898384733039601488923726092173224184608376674992592313740189678034570795170558363467761652042654970959809093133570250935428086587327262919456144944542601257064044846194041676826903812816523290938580750782913463467636686848)) (Fin (5 / 2)) (Fin (3715469692580659 / 1125899906842624)) (Fin (6 / 1)) (Fin (12 / 1)) true true true ((Fin (0 / 1)) :: (Fin (0 / 1)) :: (Fin (0 / 1)) :: (Fin (0 / 1)) :: (Fin (27 / 4)) :: (Fin (45 / 1)) :: nil)) (35 / 1).
Proof. apply (A41_rio_fin _ (253 / 25300281663413827294061918339864663381194581220517764794612669753428792445999418361495047962679640561898384733039601488923726092173224184608376674992592313740189678034570795170558363467761652042654970959809093133570250935428086587327262919456144944542601257064044846194041676826903812816523290938580750782913463467636686848)); [reflexivity | apply (A41_q_floor 253 25300281663413827294061918339864663381194581220517764794612669753428792445999418361495047962679640561898384733039601488923726092173224184608376674992592313740189678034570795170558363467761652042654970959809093133570250935428086587327262919456144944542601257064044846194041676826903812816523290938580750782913463467636686848 35 1); vm_compute; reflexivity]. Qed.
Lemma r_A41_1254 : rio_reads A41_c A41_e A41_lo A41_hi floor_volts ctol (Build_rio (Fin (612982447303187 / 295147905179352825856)) (Fin (273 / 64)) (Fin (3493 / 1024)) (Fin (6 / 1)) (Fin (10911 / 1024)) false false true ((Fin (459 / 1024)) :: (Fin (1191 / 1024)) :: (Fin (2231 / 1024)) :: (Fin (48257 / 256)) :: (Fin (3773 / 512)) :: (Fin (25421 / 1024)) :: nil)) (35 / 1).
Proof. apply (A41_rio_fin _ (612982447303187 / 295147905179352825856)); [reflexivity | apply (A41_q_floor 612982447303187 295147905179352825856 35 1); vm_compute; reflexivity]. Qed.
Lemma d_A41_1339c : close ctol (5 / 1) (clamp A41_lo A41_hi (5 / 1)).
Proof. apply (A41_q_clamp_mid 5 1 5 1); vm_compute; reflexivity. Qed.
Lemma d_A41_1347c : close ctol (35 / 1) (clamp A41_lo A41_hi (80 / 1)).
Proof. apply (A41_q_clamp_hi 80 1 35 1); vm_compute; reflexivity. Qed.
Lemma d_A41_1355c : close ctol (9 / 2) (clamp A41_lo A41_hi ((-5) / 1)).
Proof. apply (A41_q_clamp_lo (-5) 1 9 2); vm_compute; reflexivity. Qed.
Lemma d_A41_1363c : close ctol (7036874417766401 / 281474976710656) (clamp A41_lo A41_hi (25 / 1)).
Proof. apply (A41_q_clamp_mid 25 1 7036874417766401 281474976710656); vm_compute; reflexivity. Qed.
Lemma d_A41_1371c : close ctol (35 / 1) (clamp A41_lo A41_hi (1000000000000000052504760255204420248704468581108159154915854115511802457988908195786371375080447864043704443832883878176942523235360430575644792184786706982848387200926575803737830233794788090059368953234970799945081119038967640880074652742780142494579258788820056842838115669472196386865459400540160 / 1)).
Proof. apply (A41_q_clamp_hi 1000000000000000052504760255204420248704468581108159154915854115511802457988908195786371375080447864043704443832883878176942523235360430575644792184786706982848387200926575803737830233794788090059368953234970799945081119038967640880074652742780142494579258788820056842838115669472196386865459400540160 1 35 1); vm_compute; reflexivity. Qed.
Lemma d_A41_1380c : close ctol (35 / 1) (clamp A41_lo A41_hi (4925812092436481 / 140737488355328)).
Proof. apply (A41_q_clamp_hi 4925812092436481 140737488355328 35 1); vm_compute; reflexivity. Qed.
Lemma d_A41_1388c : close ctol (5 / 1) (clamp A41_lo A41_hi (5 / 1)).
Proof. apply (A41_q_clamp_mid 5 1 5 1); vm_compute; reflexivity. Qed.
Lemma d_A41_1396c : close ctol (6817559301938881 / 281474976710656) (clamp A41_lo A41_hi (6817559301938881 / 281474976710656)).
Proof. apply (A41_q_clamp_mid 6817559301938881 281474976710656 6817559301938881 281474976710656); vm_compute; reflexivity. Qed.
Lemma d_A41_1404c : close ctol (3334621410261577 / 140737488355328) (clamp A41_lo A41_hi (3334621410261577 / 140737488355328)).
Proof. apply (A41_q_clamp_mid 3334621410261577 140737488355328 3334621410261577 140737488355328); vm_compute; reflexivity. Qed.
Lemma d_A41_1412c : close ctol (1920613141770127 / 140737488355328) (clamp A41_lo A41_hi (1920613141770127 / 140737488355328)).
Proof. apply (A41_q_clamp_mid 1920613141770127 140737488355328 1920613141770127 140737488355328); vm_compute; reflexivity. Qed.
Lemma d_A41_1420c : close ctol (9 / 2) (clamp A41_lo A41_hi (2333211582662127 / 562949953421312)).
Proof. apply (A41_q_clamp_lo 2333211582662127 562949953421312 9 2); vm_compute; reflexivity. Qed.
Lemma d_A41_1428c : close ctol (2274023710109361 / 281474976710656) (clamp A41_lo A41_hi (2274023710109361 / 281474976710656)).
Proof. apply (A41_q_clamp_mid 2274023710109361 281474976710656 2274023710109361 281474976710656); vm_compute; reflexivity. Qed.
Lemma d_A41_1436c : close ctol (4527709531490629 / 281474976710656) (clamp A41_lo A41_hi (4527709531490629 / 281474976710656)).
Proof. apply (A41_q_clamp_mid 4527709531490629 281474976710656 4527709531490629 281474976710656); vm_compute; reflexivity. Qed.
Lemma d_A41_1444c : close ctol (1293576699434455 / 70368744177664) (clamp A41_lo A41_hi (1293576699434455 / 70368744177664)).
Proof. apply (A41_q_clamp_mid 1293576699434455 70368744177664 1293576699434455 70368744177664); vm_compute; reflexivity. Qed.
Lemma d_A41_1452c : close ctol (4551964710063201 / 140737488355328) (clamp A41_lo A41_hi (4551964710063201 / 140737488355328)).
Proof. apply (A41_q_clamp_mid 4551964710063201 140737488355328 4551964710063201 140737488355328); vm_compute; reflexivity. Qed.
Lemma d_A41_1460c : close ctol (580946576027611 / 17592186044416) (clamp A41_lo A41_hi (580946576027611 / 17592186044416)).
Proof. apply (A41_q_clamp_mid 580946576027611 17592186044416 580946576027611 17592186044416); vm_compute; reflexivity. Qed.
Lemma d_A41_1468c : close ctol (9 / 2) (clamp A41_lo A41_hi ((-4748792423372811) / 2251799813685248)).
Proof. apply (A41_q_clamp_lo (-4748792423372811) 2251799813685248 9 2); vm_compute; reflexivity. Qed.
Lemma d_A41_1476c : close ctol (8743620665609407 / 281474976710656) (clamp A41_lo A41_hi (8743620665609407 / 281474976710656)).
Proof. apply (A41_q_clamp_mid 8743620665609407 281474976710656 8743620665609407 281474976710656); vm_compute; reflexivity. Qed.
Lemma d_A41_1484c : close ctol (9 / 2) (clamp A41_lo A41_hi (0 / 1)).
Proof. apply (A41_q_clamp_lo 0 1 9 2); vm_compute; reflexivity. Qed.
Lemma d_A41_1492c : close ctol (2325701397364667 / 140737488355328) (clamp A41_lo A41_hi (2325701397364667 / 140737488355328)).
Proof. apply (A41_q_clamp_mid 2325701397364667 140737488355328 2325701397364667 140737488355328); vm_compute; reflexivity. Qed.
Lemma d_A41_1500c : close ctol (1359448848730839 / 140737488355328) (clamp A41_lo A41_hi (1359448848730839 / 140737488355328)).
Proof. apply (A41_q_clamp_mid 1359448848730839 140737488355328 1359448848730839 140737488355328); vm_compute; reflexivity. Qed.
Lemma d_A41_1508c : close ctol (788193373715823 / 35184372088832) (clamp A41_lo A41_hi (6305546989726583 / 281474976710656)).
Proof. apply (A41_q_clamp_mid 6305546989726583 281474976710656 788193373715823 35184372088832); vm_compute; reflexivity. Qed.
Lemma d_A41_1516c : close ctol (7920638492967881 / 562949953421312) (clamp A41_lo A41_hi (7920638492967881 / 562949953421312)).
Proof. apply (A41_q_clamp_mid 7920638492967881 562949953421312 7920638492967881 562949953421312); vm_compute; reflexivity. Qed.
Lemma d_A41_1524c : close ctol (35 / 1) (clamp A41_lo A41_hi (651683794872843 / 17592186044416)).
Proof. apply (A41_q_clamp_hi 651683794872843 17592186044416 35 1); vm_compute; reflexivity. Qed.
Lemma d_A41_1532c : close ctol (2586513469368067 / 281474976710656) (clamp A41_lo A41_hi (2586513469368067 / 281474976710656)).
Proof. apply (A41_q_clamp_mid 2586513469368067 281474976710656 2586513469368067 281474976710656); vm_compute; reflexivity. Qed.
Lemma d_A41_1540c : close ctol (2390698640002115 / 70368744177664) (clamp A41_lo A41_hi (2390698640002115 / 70368744177664)).
Proof. apply (A41_q_clamp_mid 2390698640002115 70368744177664 2390698640002115 70368744177664); vm_compute; reflexivity. Qed.
Lemma d_A41_1548c : close ctol (35 / 1) (clamp A41_lo A41_hi (6572973787306293 / 140737488355328)).
Proof. apply (A41_q_clamp_hi 6572973787306293 140737488355328 35 1); vm_compute; reflexivity. Qed.
Lemma d_A41_1556c : close ctol (4573389204267379 / 140737488355328) (clamp A41_lo A41_hi (2286694602133689 / 70368744177664)).
Proof. apply (A41_q_clamp_mid 2286694602133689 70368744177664 4573389204267379 140737488355328); vm_compute; reflexivity. Qed.
Lemma d_A41_1564c : close ctol (8258084888947465 / 281474976710656) (clamp A41_lo A41_hi (8258084888947463 / 281474976710656)).
Proof. apply (A41_q_clamp_mid 8258084888947463 281474976710656 8258084888947465 281474976710656); vm_compute; reflexivity. Qed.
Lemma d_A41_1572c : close ctol (3959645144195733 / 562949953421312) (clamp A41_lo A41_hi (3959645144195733 / 562949953421312)).
Proof. apply (A41_q_clamp_mid 3959645144195733 562949953421312 3959645144195733 562949953421312); vm_compute; reflexivity. Qed.
Lemma d_A41_1580c : close ctol (226555353388173 / 17592186044416) (clamp A41_lo A41_hi (226555353388173 / 17592186044416)).
Proof. apply (A41_q_clamp_mid 226555353388173 17592186044416 226555353388173 17592186044416); vm_compute; reflexivity. Qed.
Lemma d_A41_1588c : close ctol (4126673852283671 / 140737488355328) (clamp A41_lo A41_hi (4126673852283671 / 140737488355328)).
Proof. apply (A41_q_clamp_mid 4126673852283671 140737488355328 4126673852283671 140737488355328); vm_compute; reflexivity. Qed.
Lemma d_A41_1596c : close ctol (1312615221932385 / 140737488355328) (clamp A41_lo A41_hi (1312615221932385 / 140737488355328)).
Proof. apply (A41_q_clamp_mid 1312615221932385 140737488355328 1312615221932385 140737488355328); vm_compute; reflexivity. Qed.
Lemma d_A41_1604c : close ctol (5490693704998747 / 281474976710656) (clamp A41_lo A41_hi (5490693704998747 / 281474976710656)).
Proof. apply (A41_q_clamp_mid 5490693704998747 281474976710656 5490693704998747 281474976710656); vm_compute; reflexivity. Qed.
Lemma d_A41_1612c : close ctol (6143428663957821 / 281474976710656) (clamp A41_lo A41_hi (6143428663957821 / 281474976710656)).
Proof. apply (A41_q_clamp_mid 6143428663957821 281474976710656 6143428663957821 281474976710656); vm_compute; reflexivity. Qed.
Lemma d_A41_1620c : close ctol (7522062772361535 / 562949953421312) (clamp A41_lo A41_hi (7522062772361535 / 562949953421312)).
Proof. apply (A41_q_clamp_mid 7522062772361535 562949953421312 7522062772361535 562949953421312); vm_compute; reflexivity. Qed.
Lemma d_A41_1628c : close ctol (2737077099402283 / 140737488355328) (clamp A41_lo A41_hi (2737077099402283 / 140737488355328)).
Proof. apply (A41_q_clamp_mid 2737077099402283 140737488355328 2737077099402283 140737488355328); vm_compute; reflexivity. Qed.
Lemma d_A41_1636c : close ctol (9 / 2) (clamp A41_lo A41_hi (6264318099939939 / 2251799813685248)).
Proof. apply (A41_q_clamp_lo 6264318099939939 2251799813685248 9 2); vm_compute; reflexivity. Qed.
Lemma d_A41_1644c : close ctol (35 / 1) (clamp A41_lo A41_hi (6288740840116945 / 140737488355328)).
Proof. apply (A41_q_clamp_hi 6288740840116945 140737488355328 35 1); vm_compute; reflexivity. Qed.
Lemma d_A41_1652c : close ctol (35 / 1) (clamp A41_lo A41_hi (4663304165276373 / 68719476736)).
Proof. apply (A41_q_clamp_hi 4663304165276373 68719476736 35 1); vm_compute; reflexivity. Qed.
Lemma d_A41_1660c : close ctol (9 / 2) (clamp A41_lo A41_hi ((-3) / 1)).
Proof. apply (A41_q_clamp_lo (-3) 1 9 2); vm_compute; reflexivity. Qed.
Lemma d_A41_1668c : close ctol (3162294721846373 / 140737488355328) (clamp A41_lo A41_hi (3162294721846373 / 140737488355328)).
Proof. apply (A41_q_clamp_mid 3162294721846373 140737488355328 3162294721846373 140737488355328); vm_compute; reflexivity. Qed.
Lemma d_A41_1676c : close ctol (35 / 1) (clamp A41_lo A41_hi (5115142301399331 / 140737488355328)).
Proof. apply (A41_q_clamp_hi 5115142301399331 140737488355328 35 1); vm_compute; reflexivity. Qed.
Lemma d_A41_1684c : close ctol (35 / 1) (clamp A41_lo A41_hi (5223719916268047 / 140737488355328)).
Proof. apply (A41_q_clamp_hi 5223719916268047 140737488355328 35 1); vm_compute; reflexivity. Qed.
Lemma d_A41_1692c : close ctol (1730768466065985 / 140737488355328) (clamp A41_lo A41_hi (6923073864263941 / 562949953421312)).
Proof. apply (A41_q_clamp_mid 6923073864263941 562949953421312 1730768466065985 140737488355328); vm_compute; reflexivity. Qed.
Lemma d_A41_1700c : close ctol (4634999768306229 / 140737488355328) (clamp A41_lo A41_hi (4634999768306229 / 140737488355328)).
Proof. apply (A41_q_clamp_mid 4634999768306229 140737488355328 4634999768306229 140737488355328); vm_compute; reflexivity. Qed.
Lemma d_A41_1708c : close ctol (80621366624491 / 4398046511104) (clamp A41_lo A41_hi (80621366624491 / 4398046511104)).
Proof. apply (A41_q_clamp_mid 80621366624491 4398046511104 80621366624491 4398046511104); vm_compute; reflexivity. Qed.
Lemma d_A41_1716c : close ctol (9 / 2) (clamp A41_lo A41_hi (1839748188909233 / 2251799813685248)).
Proof. apply (A41_q_clamp_lo 1839748188909233 2251799813685248 9 2); vm_compute; reflexivity. Qed.
Lemma d_A41_1724c : close ctol (35 / 1) (clamp A41_lo A41_hi (3855039558058159 / 70368744177664)).
Proof. apply (A41_q_clamp_hi 3855039558058159 70368744177664 35 1); vm_compute; reflexivity. Qed.
Lemma d_A41_1732c : close ctol (6746834042262267 / 281474976710656) (clamp A41_lo A41_hi (3373417021131133 / 140737488355328)).
Proof. apply (A41_q_clamp_mid 3373417021131133 140737488355328 6746834042262267 281474976710656); vm_compute; reflexivity. Qed.
Lemma d_A41_1740c : close ctol (35 / 1) (clamp A41_lo A41_hi (3499732514505571 / 35184372088832)).
Proof. apply (A41_q_clamp_hi 3499732514505571 35184372088832 35 1); vm_compute; reflexivity. Qed.
Lemma d_A41_1748c : close ctol (1857906315183999 / 140737488355328) (clamp A41_lo A41_hi (7431625260735995 / 562949953421312)).
Proof. apply (A41_q_clamp_mid 7431625260735995 562949953421312 1857906315183999 140737488355328); vm_compute; reflexivity. Qed.
Lemma d_A41_1756c : close ctol (9 / 2) (clamp A41_lo A41_hi ((-1020944863289793) / 562949953421312)).
Proof. apply (A41_q_clamp_lo (-1020944863289793) 562949953421312 9 2); vm_compute; reflexivity. Qed.
Lemma d_A41_1764c : close ctol (5527936421890607 / 1125899906842624) (clamp A41_lo A41_hi (5527936421890607 / 1125899906842624)).
Proof. apply (A41_q_clamp_mid 5527936421890607 1125899906842624 5527936421890607 1125899906842624); vm_compute; reflexivity. Qed.
Lemma d_A41_1772c : close ctol (2642473345552407 / 281474976710656) (clamp A41_lo A41_hi (2642473345552407 / 281474976710656)).
Proof. apply (A41_q_clamp_mid 2642473345552407 281474976710656 2642473345552407 281474976710656); vm_compute; reflexivity. Qed.
Lemma d_A41_1780c : close ctol (7529457776754441 / 281474976710656) (clamp A41_lo A41_hi (7529457776754441 / 281474976710656)).
Proof. apply (A41_q_clamp_mid 7529457776754441 281474976710656 7529457776754441 281474976710656); vm_compute; reflexivity. Qed.
Lemma d_A41_1788c : close ctol (4607744105817243 / 562949953421312) (clamp A41_lo A41_hi (4607744105817243 / 562949953421312)).
Proof. apply (A41_q_clamp_mid 4607744105817243 562949953421312 4607744105817243 562949953421312); vm_compute; reflexivity. Qed.
Lemma d_A41_1796c : close ctol (2882887034112551 / 281474976710656) (clamp A41_lo A41_hi (5765774068225103 / 562949953421312)).
Proof. apply (A41_q_clamp_mid 5765774068225103 562949953421312 2882887034112551 281474976710656); vm_compute; reflexivity. Qed.
Lemma d_A41_1804c : close ctol (8546124301991353 / 281474976710656) (clamp A41_lo A41_hi (8546124301991353 / 281474976710656)).
Proof. apply (A41_q_clamp_mid 8546124301991353 281474976710656 8546124301991353 281474976710656); vm_compute; reflexivity. Qed.
Lemma d_A41_1812c : close ctol (3483454402154737 / 140737488355328) (clamp A41_lo A41_hi (6966908804309473 / 281474976710656)).
Proof. apply (A41_q_clamp_mid 6966908804309473 281474976710656 3483454402154737 140737488355328); vm_compute; reflexivity. Qed.
Lemma d_A41_1820c : close ctol (35 / 1) (clamp A41_lo A41_hi (6577735137716621 / 140737488355328)).
Proof. apply (A41_q_clamp_hi 6577735137716621 140737488355328 35 1); vm_compute; reflexivity. Qed.
Lemma d_A41_1828c : close ctol (1351166539420849 / 140737488355328) (clamp A41_lo A41_hi (1351166539420849 / 140737488355328)).
Proof. apply (A41_q_clamp_mid 1351166539420849 140737488355328 1351166539420849 140737488355328); vm_compute; reflexivity. Qed.
Lemma d_A41_1836c : close ctol (6805131229937089 / 562949953421312) (clamp A41_lo A41_hi (106330175467767 / 8796093022208)).
Proof. apply (A41_q_clamp_mid 106330175467767 8796093022208 6805131229937089 562949953421312); vm_compute; reflexivity. Qed.
Lemma d_A41_1844c : close ctol (7542641675766977 / 1125899906842624) (clamp A41_lo A41_hi (117853776183859 / 17592186044416)).
Proof. apply (A41_q_clamp_mid 117853776183859 17592186044416 7542641675766977 1125899906842624); vm_compute; reflexivity. Qed.
Lemma d_A41_1852c : close ctol (8720405724714939 / 281474976710656) (clamp A41_lo A41_hi (4360202862357469 / 140737488355328)).
Proof. apply (A41_q_clamp_mid 4360202862357469 140737488355328 8720405724714939 281474976710656); vm_compute; reflexivity. Qed.
Lemma d_A41_1860c : close ctol (18081232911469 / 2199023255552) (clamp A41_lo A41_hi (18081232911469 / 2199023255552)).
Proof. apply (A41_q_clamp_mid 18081232911469 2199023255552 18081232911469 2199023255552); vm_compute; reflexivity. Qed.
Lemma d_A41_1868c : close ctol (9 / 2) (clamp A41_lo A41_hi ((-2108889469550931) / 2251799813685248)).
Proof. apply (A41_q_clamp_lo (-2108889469550931) 2251799813685248 9 2); vm_compute; reflexivity. Qed.
Lemma d_A41_1876c : close ctol (7509545529263979 / 562949953421312) (clamp A41_lo A41_hi (7509545529263979 / 562949953421312)).
Proof. apply (A41_q_clamp_mid 7509545529263979 562949953421312 7509545529263979 562949953421312); vm_compute; reflexivity. Qed.
Lemma d_A41_1884c : close ctol (8116150629596241 / 281474976710656) (clamp A41_lo A41_hi (507259414349765 / 17592186044416)).
Proof. apply (A41_q_clamp_mid 507259414349765 17592186044416 8116150629596241 281474976710656); vm_compute; reflexivity. Qed.
Lemma d_A41_1892c : close ctol (1604155964913153 / 70368744177664) (clamp A41_lo A41_hi (1604155964913153 / 70368744177664)).
Proof. apply (A41_q_clamp_mid 1604155964913153 70368744177664 1604155964913153 70368744177664); vm_compute; reflexivity. Qed.
Lemma d_A41_1900c : close ctol (195340597422131 / 8796093022208) (clamp A41_lo A41_hi (195340597422131 / 8796093022208)).
Proof. apply (A41_q_clamp_mid 195340597422131 8796093022208 195340597422131 8796093022208); vm_compute; reflexivity. Qed.
Lemma d_A41_1908c : close ctol (2608876426756781 / 281474976710656) (clamp A41_lo A41_hi (2608876426756781 / 281474976710656)).
Proof. apply (A41_q_clamp_mid 2608876426756781 281474976710656 2608876426756781 281474976710656); vm_compute; reflexivity. Qed.
Lemma d_A41_1916c : close ctol (4883289101533491 / 140737488355328) (clamp A41_lo A41_hi (2441644550766745 / 70368744177664)).
Proof. apply (A41_q_clamp_mid 2441644550766745 70368744177664 4883289101533491 140737488355328); vm_compute; reflexivity. Qed.
Lemma d_A41_1924c : close ctol (9 / 2) (clamp A41_lo A41_hi (8724153032215641 / 144115188075855872)).
Proof. apply (A41_q_clamp_lo 8724153032215641 144115188075855872 9 2); vm_compute; reflexivity. Qed.
Lemma d_A41_1932c : close ctol (35 / 1) (clamp A41_lo A41_hi (7322833475838567 / 70368744177664)).
Proof. apply (A41_q_clamp_hi 7322833475838567 70368744177664 35 1); vm_compute; reflexivity. Qed.
Lemma d_A41_1940c : close ctol (9 / 2) (clamp A41_lo A41_hi ((-251365753459939) / 1125899906842624)).
Proof. apply (A41_q_clamp_lo (-251365753459939) 1125899906842624 9 2); vm_compute; reflexivity. Qed.
Lemma d_A41_1948c : close ctol (9 / 2) (clamp A41_lo A41_hi (2522741309165069 / 562949953421312)).
Proof. apply (A41_q_clamp_lo 2522741309165069 562949953421312 9 2); vm_compute; reflexivity. Qed.
Lemma d_A41_1956c : close ctol (6505255006769725 / 281474976710656) (clamp A41_lo A41_hi (1626313751692431 / 70368744177664)).
Proof. apply (A41_q_clamp_mid 1626313751692431 70368744177664 6505255006769725 281474976710656); vm_compute; reflexivity. Qed.
Lemma d_A41_1964c : close ctol (2834874112752705 / 281474976710656) (clamp A41_lo A41_hi (2834874112752705 / 281474976710656)).
Proof. apply (A41_q_clamp_mid 2834874112752705 281474976710656 2834874112752705 281474976710656); vm_compute; reflexivity. Qed.
Lemma d_A41_1972c : close ctol (7697323408027619 / 281474976710656) (clamp A41_lo A41_hi (1924330852006905 / 70368744177664)).
Proof. apply (A41_q_clamp_mid 1924330852006905 70368744177664 7697323408027619 281474976710656); vm_compute; reflexivity. Qed.
Lemma d_A41_1980c : close ctol (2917440414645847 / 140737488355328) (clamp A41_lo A41_hi (2917440414645847 / 140737488355328)).
Proof. apply (A41_q_clamp_mid 2917440414645847 140737488355328 2917440414645847 140737488355328); vm_compute; reflexivity. Qed.
Lemma d_A41_1988c : close ctol (8571209902819565 / 562949953421312) (clamp A41_lo A41_hi (2142802475704891 / 140737488355328)).
Proof. apply (A41_q_clamp_mid 2142802475704891 140737488355328 8571209902819565 562949953421312); vm_compute; reflexivity. Qed.
Lemma d_A41_1996c : close ctol (35 / 1) (clamp A41_lo A41_hi (367628034594651 / 4398046511104)).
Proof. apply (A41_q_clamp_hi 367628034594651 4398046511104 35 1); vm_compute; reflexivity. Qed.
Check d_A41_1996c.
