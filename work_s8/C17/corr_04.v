From Coq Require Import Reals Lra.
From Interval Require Import Tactic.
From RV Require Import IR.Model IR.Proofs.
Open Scope R_scope.
Lemma r_A02_7 : rio_reads A02_c A02_e A02_lo A02_hi floor_volts ctol (Build_rio (Fin (1 / 1)) (Fin (10 / 1)) (Fin (3715469692580659 / 1125899906842624)) (Fin (6 / 1)) (Fin (12 / 1)) true true true ((Fin (0 / 1)) :: (Fin (0 / 1)) :: (Fin (0 / 1)) :: (Fin (0 / 1)) :: (Fin (27 / 4)) :: (Fin (45 / 1)) :: nil)) (2191282693692457 / 35184372088832).
Proof. apply (A02_rio_fin _ (1 / 1)); [reflexivity | apply (A02_q_mid 1 1 2191282693692457 35184372088832); [vm_compute; reflexivity | unfold fr, close, ctol, A02_c, A02_e; interval with (i_prec 80)]]. Qed.
Lemma r_A02_38 : rio_reads A02_c A02_e A02_lo A02_hi floor_volts ctol (Build_rio (Fin (100000000000000001097906362944045541740492309677311846336810682903157585404911491537163328978494688899061249669721172515611590283743140088328307009198146046031271664502933027185697489699588559043338384466165001178426897626212945177628091195786707458122783970171784415105291802893207873272974885715430223118336 / 1)) (Fin (5 / 1)) (Fin (3715469692580659 / 1125899906842624)) (Fin ((-1) / 1)) (Fin (12 / 1)) true true true ((Fin (0 / 1)) :: (Fin (0 / 1)) :: (Fin (0 / 1)) :: (Fin (0 / 1)) :: (Fin (27 / 4)) :: (Fin (45 / 1)) :: nil)) (45 / 2).
Proof. apply (A02_rio_fin _ (100000000000000001097906362944045541740492309677311846336810682903157585404911491537163328978494688899061249669721172515611590283743140088328307009198146046031271664502933027185697489699588559043338384466165001178426897626212945177628091195786707458122783970171784415105291802893207873272974885715430223118336 / 1)); [reflexivity | apply (A02_q_lo 100000000000000001097906362944045541740492309677311846336810682903157585404911491537163328978494688899061249669721172515611590283743140088328307009198146046031271664502933027185697489699588559043338384466165001178426897626212945177628091195786707458122783970171784415105291802893207873272974885715430223118336 1 45 2); [vm_compute; reflexivity | unfold fr, ctol, A02_lo, A02_c, A02_e; interval with (i_prec 80)]]. Qed.
Lemma r_A02_56 : rio_reads A02_c A02_e A02_lo A02_hi floor_volts ctol (Build_rio (Fin (1885 / 4096)) (Fin (0 / 1)) (Fin (3715469692580659 / 1125899906842624)) (Fin (6 / 1)) (Fin (12 / 1)) false true true ((Fin (0 / 1)) :: (Fin (0 / 1)) :: (Fin (0 / 1)) :: (Fin (0 / 1)) :: (Fin (27 / 4)) :: (Fin (45 / 1)) :: nil)) (145 / 1).
Proof. apply (A02_rio_fin _ (1885 / 4096)); [reflexivity | apply (A02_q_hi 1885 4096 145 1); [vm_compute; reflexivity | unfold fr, ctol, A02_hi, A02_c, A02_e; interval with (i_prec 80)]]. Qed.
Lemma r_A02_72 : rio_reads A02_c A02_e A02_lo A02_hi floor_volts ctol (Build_rio (Fin (25 / 256)) (Fin (311 / 64)) (Fin (2709 / 1024)) NInf (Fin (11107 / 1024)) true true true ((Fin (153 / 512)) :: (Fin (341 / 256)) :: (Fin (41 / 1024)) :: (Fin (33985 / 512)) :: (Fin (5475 / 1024)) :: (Fin (41991 / 512)) :: nil)) (145 / 1).
Proof. apply (A02_rio_fin _ (25 / 256)); [reflexivity | apply (A02_q_hi 25 256 145 1); [vm_compute; reflexivity | unfold fr, ctol, A02_hi, A02_c, A02_e; interval with (i_prec 80)]]. Qed.
Lemma r_A02_88 : rio_reads A02_c A02_e A02_lo A02_hi floor_volts ctol (Build_rio (Fin (105 / 256)) (Fin (4591 / 1024)) (Fin (3715469692580659 / 1125899906842624)) (Fin (1095 / 512)) (Fin (155 / 16)) true false true ((Fin (595 / 512)) :: (Fin (87 / 128)) :: (Fin (1055 / 1024)) :: (Fin (37709 / 256)) :: (Fin (6263 / 1024)) :: (Fin (86997 / 1024)) :: nil)) (145 / 1).
Proof. apply (A02_rio_fin _ (105 / 256)); [reflexivity | apply (A02_q_hi 105 256 145 1); [vm_compute; reflexivity | unfold fr, ctol, A02_hi, A02_c, A02_e; interval with (i_prec 80)]]. Qed.
Lemma r_A02_104 : rio_reads A02_c A02_e A02_lo A02_hi floor_volts ctol (Build_rio (Fin (185 / 256)) (Fin (691 / 128)) (Fin (5902958103587057 / 590295810358705651712)) (Fin (0 / 1)) (Fin (1 / 202402253307310618352495346718917307049556649764142118356901358027430339567995346891960383701437124495187077864316811911389808737385793476867013399940738509921517424276566361364466907742093216341239767678472745068562007483424692698618103355649159556340810056512358769552333414615230502532186327508646006263307707741093494784)) true false false ((Fin (2521 / 1024)) :: (Fin (1905 / 1024)) :: (Fin (751 / 256)) :: (Fin (51597 / 1024)) :: (Fin (1147 / 256)) :: (Fin (99049 / 1024)) :: nil)) (3124243849154635 / 35184372088832).
Proof. apply (A02_rio_fin _ (185 / 256)); [reflexivity | apply (A02_q_mid 185 256 3124243849154635 35184372088832); [vm_compute; reflexivity | unfold fr, close, ctol, A02_c, A02_e; interval with (i_prec 80)]]. Qed.
Lemma r_A02_120 : rio_reads A02_c A02_e A02_lo A02_hi floor_volts ctol (Build_rio (Fin (265 / 256)) (Fin (4421 / 1024)) (Fin (3715469692580659 / 1125899906842624)) (Fin (5247 / 1024)) (Fin (13513 / 1024)) true false true ((Fin (2769 / 1024)) :: (Fin (1269 / 1024)) :: (Fin (2601 / 1024)) :: (Fin (5721 / 512)) :: (Fin (1371 / 256)) :: (Fin (6559 / 512)) :: nil)) (8440573341578453 / 140737488355328).
Proof. apply (A02_rio_fin _ (265 / 256)); [reflexivity | apply (A02_q_mid 265 256 8440573341578453 140737488355328); [vm_compute; reflexivity | unfold fr, close, ctol, A02_c, A02_e; interval with (i_prec 80)]]. Qed.
Lemma r_A02_136 : rio_reads A02_c A02_e A02_lo A02_hi floor_volts ctol (Build_rio (Fin (345 / 256)) (Fin (4899 / 1024)) (Fin (1777 / 512)) (Fin (3 / 64)) (Fin (6281 / 512)) true true true ((Fin (621 / 512)) :: (Fin (317 / 1024)) :: (Fin (13 / 32)) :: (Fin (153215 / 1024)) :: (Fin (9069 / 1024)) :: (Fin ((-8069) / 512)) :: nil)) (6327876439922933 / 140737488355328).
Proof. apply (A02_rio_fin _ (345 / 256)); [reflexivity | apply (A02_q_mid 345 256 6327876439922933 140737488355328); [vm_compute; reflexivity | unfold fr, close, ctol, A02_c, A02_e; interval with (i_prec 80)]]. Qed.
Lemma r_A02_152 : rio_reads A02_c A02_e A02_lo A02_hi floor_volts ctol (Build_rio (Fin (425 / 256)) (Fin (4681 / 1024)) (Fin (3715469692580659 / 1125899906842624)) (Fin (6 / 1)) (Fin (11965 / 1024)) true true true ((Fin (863 / 512)) :: (Fin (983 / 512)) :: (Fin (719 / 512)) :: (Fin (50379 / 1024)) :: (Fin (6691 / 1024)) :: (Fin ((-1129) / 128)) :: nil)) (629891493858341 / 17592186044416).
Proof. apply (A02_rio_fin _ (425 / 256)); [reflexivity | apply (A02_q_mid 425 256 629891493858341 17592186044416); [vm_compute; reflexivity | unfold fr, close, ctol, A02_c, A02_e; interval with (i_prec 80)]]. Qed.
Lemma r_A02_168 : rio_reads A02_c A02_e A02_lo A02_hi floor_volts ctol (Build_rio (Fin (505 / 256)) (Fin (2385 / 512)) (Fin (2863 / 1024)) (Fin (5385 / 1024)) (Fin (6005 / 512)) false true false ((Fin (703 / 256)) :: (Fin (195 / 512)) :: (Fin (287 / 1024)) :: (Fin (177987 / 1024)) :: (Fin (6967 / 1024)) :: (Fin ((-7939) / 1024)) :: nil)) (8348188619518575 / 281474976710656).
Proof. apply (A02_rio_fin _ (505 / 256)); [reflexivity | apply (A02_q_mid 505 256 8348188619518575 281474976710656); [vm_compute; reflexivity | unfold fr, close, ctol, A02_c, A02_e; interval with (i_prec 80)]]. Qed.
Lemma r_A02_184 : rio_reads A02_c A02_e A02_lo A02_hi floor_volts ctol (Build_rio (Fin (585 / 256)) (Fin (5902958103587057 / 590295810358705651712)) (Fin (2927 / 1024)) (Fin (5065 / 1024)) (Fin (12 / 1)) false true false ((Fin (57 / 256)) :: (Fin (103 / 64)) :: (Fin (141 / 512)) :: (Fin (94667 / 512)) :: (Fin (3823 / 512)) :: (Fin (43817 / 1024)) :: nil)) (3554857828836487 / 140737488355328).
Proof. apply (A02_rio_fin _ (585 / 256)); [reflexivity | apply (A02_q_mid 585 256 3554857828836487 140737488355328); [vm_compute; reflexivity | unfold fr, close, ctol, A02_c, A02_e; interval with (i_prec 80)]]. Qed.
Lemma r_A02_200 : rio_reads A02_c A02_e A02_lo A02_hi floor_volts ctol (Build_rio (Fin (335 / 128)) (Fin (5 / 1)) (Fin (1643 / 512)) (Fin (1007 / 512)) (Fin (5811 / 512)) false true true ((Fin (235 / 1024)) :: (Fin (81 / 512)) :: (Fin (41 / 16)) :: (Fin (38693 / 1024)) :: (Fin (6839 / 1024)) :: (Fin (11447 / 512)) :: nil)) (45 / 2).
Proof. apply (A02_rio_fin _ (335 / 128)); [reflexivity | apply (A02_q_lo 335 128 45 2); [vm_compute; reflexivity | unfold fr, ctol, A02_lo, A02_c, A02_e; interval with (i_prec 80)]]. Qed.
Lemma r_A02_216 : rio_reads A02_c A02_e A02_lo A02_hi floor_volts ctol (Build_rio (Fin (375 / 128)) (Fin (6005 / 1024)) (Fin (685 / 256)) (Fin (701 / 128)) (Fin (5902958103587057 / 590295810358705651712)) true true true ((Fin (559 / 512)) :: (Fin (571 / 1024)) :: (Fin (535 / 256)) :: (Fin (10153 / 512)) :: (Fin (6547 / 1024)) :: (Fin (31861 / 1024)) :: nil)) (45 / 2).
Proof. apply (A02_rio_fin _ (375 / 128)); [reflexivity | apply (A02_q_lo 375 128 45 2); [vm_compute; reflexivity | unfold fr, ctol, A02_lo, A02_c, A02_e; interval with (i_prec 80)]]. Qed.
Lemma r_A02_232 : rio_reads A02_c A02_e A02_lo A02_hi floor_volts ctol (Build_rio (Fin (415 / 128)) (Fin (3923 / 512)) (Fin (3715469692580659 / 1125899906842624)) (Fin (6585 / 1024)) (Fin (5953 / 512)) false true true ((Fin (1279 / 1024)) :: (Fin (1739 / 1024)) :: (Fin (171 / 256)) :: (Fin (83635 / 512)) :: (Fin (4337 / 512)) :: (Fin ((-8289) / 1024)) :: nil)) (45 / 2).
Proof. apply (A02_rio_fin _ (415 / 128)); [reflexivity | apply (A02_q_lo 415 128 45 2); [vm_compute; reflexivity | unfold fr, ctol, A02_lo, A02_c, A02_e; interval with (i_prec 80)]]. Qed.
Lemma r_A02_248 : rio_reads A02_c A02_e A02_lo A02_hi floor_volts ctol (Build_rio (Fin (455 / 128)) (Fin (5343 / 1024)) (Fin (191 / 64)) (Fin (0 / 1)) (Fin (9905 / 1024)) false true false ((Fin (715 / 1024)) :: (Fin (57 / 512)) :: (Fin (1523 / 1024)) :: (Fin (197087 / 1024)) :: (Fin (805 / 128)) :: (Fin (43265 / 1024)) :: nil)) (45 / 2).
Proof. apply (A02_rio_fin _ (455 / 128)); [reflexivity | apply (A02_q_lo 455 128 45 2); [vm_compute; reflexivity | unfold fr, ctol, A02_lo, A02_c, A02_e; interval with (i_prec 80)]]. Qed.
Lemma r_A02_264 : rio_reads A02_c A02_e A02_lo A02_hi floor_volts ctol (Build_rio (Fin (495 / 128)) (Fin (5 / 1)) (Fin (1651 / 512)) (Fin (4923 / 1024)) (Fin (6439 / 512)) false true false ((Fin (683 / 256)) :: (Fin (911 / 1024)) :: (Fin (1587 / 1024)) :: (Fin (167735 / 1024)) :: (Fin (5133 / 1024)) :: (Fin (17043 / 256)) :: nil)) (45 / 2).
Proof. apply (A02_rio_fin _ (495 / 128)); [reflexivity | apply (A02_q_lo 495 128 45 2); [vm_compute; reflexivity | unfold fr, ctol, A02_lo, A02_c, A02_e; interval with (i_prec 80)]]. Qed.
Lemma r_A02_280 : rio_reads A02_c A02_e A02_lo A02_hi floor_volts ctol (Build_rio (Fin (535 / 128)) (Fin (595 / 128)) (Fin (437 / 128)) (Fin (9265 / 1024)) (Fin (6443 / 512)) true false true ((Fin (1833 / 1024)) :: (Fin (1679 / 1024)) :: (Fin (9 / 64)) :: (Fin (64407 / 512)) :: (Fin (5945 / 1024)) :: (Fin (5873 / 128)) :: nil)) (45 / 2).
Proof. apply (A02_rio_fin _ (535 / 128)); [reflexivity | apply (A02_q_lo 535 128 45 2); [vm_compute; reflexivity | unfold fr, ctol, A02_lo, A02_c, A02_e; interval with (i_prec 80)]]. Qed.
Lemma r_A02_296 : rio_reads A02_c A02_e A02_lo A02_hi floor_volts ctol (Build_rio (Fin (575 / 128)) (Fin ((-12) / 1)) (Fin (1839 / 512)) (Fin (6449 / 1024)) (Fin (2481 / 256)) true false true ((Fin (1911 / 1024)) :: (Fin (233 / 256)) :: (Fin (109 / 1024)) :: (Fin (66819 / 512)) :: (Fin (365 / 64)) :: (Fin (2703 / 1024)) :: nil)) (45 / 2).
Proof. apply (A02_rio_fin _ (575 / 128)); [reflexivity | apply (A02_q_lo 575 128 45 2); [vm_compute; reflexivity | unfold fr, ctol, A02_lo, A02_c, A02_e; interval with (i_prec 80)]]. Qed.
Lemma r_A02_312 : rio_reads A02_c A02_e A02_lo A02_hi floor_volts ctol (Build_rio (Fin (615 / 128)) (Fin (5 / 1)) (Fin (2811 / 1024)) (Fin (663 / 128)) (Fin (793 / 64)) true true false ((Fin (217 / 256)) :: (Fin (909 / 512)) :: (Fin (531 / 512)) :: (Fin (140357 / 1024)) :: (Fin (1211 / 256)) :: (Fin (479 / 512)) :: nil)) (45 / 2).
Proof. apply (A02_rio_fin _ (615 / 128)); [reflexivity | apply (A02_q_lo 615 128 45 2); [vm_compute; reflexivity | unfold fr, ctol, A02_lo, A02_c, A02_e; interval with (i_prec 80)]]. Qed.
Lemma r_A02_328 : rio_reads A02_c A02_e A02_lo A02_hi floor_volts ctol (Build_rio (Fin (2713884764932191 / 1125899906842624)) (Fin (2119 / 512)) (Fin (5902958103587057 / 590295810358705651712)) (Fin (663 / 128)) (Fin (3333 / 256)) true true true ((Fin (739 / 512)) :: (Fin (227 / 512)) :: (Fin (1029 / 512)) :: (Fin (12521 / 1024)) :: (Fin (4231 / 1024)) :: (Fin (10711 / 256)) :: nil)) (6707247726513441 / 281474976710656).
Proof. apply (A02_rio_fin _ (2713884764932191 / 1125899906842624)); [reflexivity | apply (A02_q_mid 2713884764932191 1125899906842624 6707247726513441 281474976710656); [vm_compute; reflexivity | unfold fr, close, ctol, A02_c, A02_e; interval with (i_prec 80)]]. Qed.
Lemma r_A02_344 : rio_reads A02_c A02_e A02_lo A02_hi floor_volts ctol (Build_rio (Fin (4784167551062819 / 1125899906842624)) (Fin (2369 / 512)) (Fin (3485 / 1024)) (Fin (3283 / 512)) (Fin (261 / 64)) true true true ((Fin (649 / 512)) :: (Fin (209 / 512)) :: (Fin (525 / 1024)) :: (Fin (25079 / 256)) :: (Fin (661 / 128)) :: (Fin (3543 / 512)) :: nil)) (45 / 2).
Proof. apply (A02_rio_fin _ (4784167551062819 / 1125899906842624)); [reflexivity | apply (A02_q_lo 4784167551062819 1125899906842624 45 2); [vm_compute; reflexivity | unfold fr, ctol, A02_lo, A02_c, A02_e; interval with (i_prec 80)]]. Qed.
Lemma r_A02_360 : rio_reads A02_c A02_e A02_lo A02_hi floor_volts ctol (Build_rio (Fin (8482870905346865 / 9007199254740992)) (Fin (4707 / 1024)) (Fin (3083 / 1024)) (Fin (3681 / 512)) (Fin (4947 / 1024)) true true false ((Fin (737 / 512)) :: (Fin (369 / 256)) :: (Fin (1877 / 1024)) :: (Fin (28783 / 512)) :: (Fin (1037 / 128)) :: (Fin (9839 / 512)) :: nil)) (4679200262587217 / 70368744177664).
Proof. apply (A02_rio_fin _ (8482870905346865 / 9007199254740992)); [reflexivity | apply (A02_q_mid 8482870905346865 9007199254740992 4679200262587217 70368744177664); [vm_compute; reflexivity | unfold fr, close, ctol, A02_c, A02_e; interval with (i_prec 80)]]. Qed.
Lemma r_A02_376 : rio_reads A02_c A02_e A02_lo A02_hi floor_volts ctol (Build_rio (Fin (302847546764069 / 70368744177664)) (Fin (4815 / 1024)) (Fin ((-1) / 1)) (Fin (4449 / 1024)) (Fin (10993 / 1024)) true false false ((Fin (617 / 256)) :: (Fin (907 / 1024)) :: (Fin (149 / 1024)) :: (Fin (29507 / 256)) :: (Fin (4005 / 1024)) :: (Fin (1375 / 512)) :: nil)) (45 / 2).
Proof. apply (A02_rio_fin _ (302847546764069 / 70368744177664)); [reflexivity | apply (A02_q_lo 302847546764069 70368744177664 45 2); [vm_compute; reflexivity | unfold fr, ctol, A02_lo, A02_c, A02_e; interval with (i_prec 80)]]. Qed.
Lemma r_A02_394 : rio_reads A02_c A02_e A02_lo A02_hi floor_volts ctol (Build_rio (Fin (1603363908086275 / 576460752303423488)) (Fin (4297 / 1024)) (Fin (713 / 512)) (Fin (6601 / 1024)) (Fin (100000000000000001097906362944045541740492309677311846336810682903157585404911491537163328978494688899061249669721172515611590283743140088328307009198146046031271664502933027185697489699588559043338384466165001178426897626212945177628091195786707458122783970171784415105291802893207873272974885715430223118336 / 1)) true true false ((Fin (171 / 512)) :: (Fin (51 / 1024)) :: (Fin (997 / 1024)) :: (Fin (141579 / 1024)) :: (Fin (2795 / 512)) :: (Fin (2765 / 512)) :: nil)) (145 / 1).
Proof. apply (A02_rio_fin _ (1603363908086275 / 576460752303423488)); [reflexivity | apply (A02_q_hi 1603363908086275 576460752303423488 145 1); [vm_compute; reflexivity | unfold fr, ctol, A02_hi, A02_c, A02_e; interval with (i_prec 80)]]. Qed.
Lemma r_A02_413 : rio_reads A02_c A02_e A02_lo A02_hi floor_volts ctol (Build_rio (Fin (3057672911901763 / 35184372088832)) (Fin (5 / 1)) (Fin (3715469692580659 / 1125899906842624)) (Fin (6 / 1)) (Fin (12 / 1)) true true true ((Fin (0 / 1)) :: (Fin (0 / 1)) :: (Fin (0 / 1)) :: (Fin (0 / 1)) :: (Fin (27 / 4)) :: (Fin (45 / 1)) :: nil)) (45 / 2).
Proof. apply (A02_rio_fin _ (3057672911901763 / 35184372088832)); [reflexivity | apply (A02_q_lo 3057672911901763 35184372088832 45 2); [vm_compute; reflexivity | unfold fr, ctol, A02_lo, A02_c, A02_e; interval with (i_prec 80)]]. Qed.
Lemma d_A02_5u : close ctol (5506844515100971 / 4503599627370496) (volts_A02 (50 / 1)).
Proof. apply (A02_q_volts_mid 50 1 5506844515100971 4503599627370496); [vm_compute; reflexivity | unfold fr, close, ctol, A02_lo, A02_hi, A02_c, A02_e; interval with (i_prec 80)]. Qed.
Lemma d_A02_13u : close ctol (357539307115111 / 140737488355328) (volts_A02 (45 / 2)).
Proof. apply (A02_q_volts_lo 45 2 357539307115111 140737488355328); [vm_compute; reflexivity | unfold fr, close, ctol, A02_lo, A02_hi, A02_c, A02_e; interval with (i_prec 80)]. Qed.
Lemma d_A02_21u : close ctol (357539307115111 / 140737488355328) (volts_A02 (0 / 1)).
Proof. apply (A02_q_volts_lo 0 1 357539307115111 140737488355328); [vm_compute; reflexivity | unfold fr, close, ctol, A02_lo, A02_hi, A02_c, A02_e; interval with (i_prec 80)]. Qed.
Lemma d_A02_29u : close ctol (357539307115111 / 140737488355328) (volts_A02 (5 / 1)).
Proof. apply (A02_q_volts_lo 5 1 357539307115111 140737488355328); [vm_compute; reflexivity | unfold fr, close, ctol, A02_lo, A02_hi, A02_c, A02_e; interval with (i_prec 80)]. Qed.
Lemma d_A02_37u : close ctol (8308476880671015 / 18014398509481984) (volts_A02 (1000 / 1)).
Proof. apply (A02_q_volts_hi 1000 1 8308476880671015 18014398509481984); [vm_compute; reflexivity | unfold fr, close, ctol, A02_lo, A02_hi, A02_c, A02_e; interval with (i_prec 80)]. Qed.
Lemma d_A02_45u : close ctol (357539307115111 / 140737488355328) (volts_A02 (6333186975989759 / 281474976710656)).
Proof. apply (A02_q_volts_lo 6333186975989759 281474976710656 357539307115111 140737488355328); [vm_compute; reflexivity | unfold fr, close, ctol, A02_lo, A02_hi, A02_c, A02_e; interval with (i_prec 80)]. Qed.
Lemma d_A02_53u : close ctol (8308476880671015 / 18014398509481984) (volts_A02 (145 / 1)).
Proof. apply (A02_q_volts_hi 145 1 8308476880671015 18014398509481984); [vm_compute; reflexivity | unfold fr, close, ctol, A02_lo, A02_hi, A02_c, A02_e; interval with (i_prec 80)]. Qed.
Lemma d_A02_63u : close ctol (6423773465625949 / 4503599627370496) (volts_A02 (5947558970092391 / 140737488355328)).
Proof. apply (A02_q_volts_mid 5947558970092391 140737488355328 6423773465625949 4503599627370496); [vm_compute; reflexivity | unfold fr, close, ctol, A02_lo, A02_hi, A02_c, A02_e; interval with (i_prec 80)]. Qed.
Lemma d_A02_76u : close ctol (2560749175021749 / 4503599627370496) (volts_A02 (4059278731268285 / 35184372088832)).
Proof. apply (A02_q_volts_mid 4059278731268285 35184372088832 2560749175021749 4503599627370496); [vm_compute; reflexivity | unfold fr, close, ctol, A02_lo, A02_hi, A02_c, A02_e; interval with (i_prec 80)]. Qed.
Lemma d_A02_88r : rio_reads A02_c A02_e A02_lo A02_hi floor_volts ctol (Build_rio (Fin (199264570600197 / 281474976710656)) (Fin (5902958103587057 / 590295810358705651712)) (Fin (3715469692580659 / 1125899906842624)) PInf (Fin (100000000000000001097906362944045541740492309677311846336810682903157585404911491537163328978494688899061249669721172515611590283743140088328307009198146046031271664502933027185697489699588559043338384466165001178426897626212945177628091195786707458122783970171784415105291802893207873272974885715430223118336 / 1)) false true true ((Fin (225 / 1024)) :: (Fin (1493 / 1024)) :: (Fin (739 / 256)) :: (Fin (186149 / 1024)) :: (Fin (3671 / 512)) :: (Fin (457 / 64)) :: nil)) (3195280623261887 / 35184372088832).
Proof. apply (A02_rio_fin _ (199264570600197 / 281474976710656)); [reflexivity | apply (A02_q_mid 199264570600197 281474976710656 3195280623261887 35184372088832); [vm_compute; reflexivity | unfold fr, close, ctol, A02_c, A02_e; interval with (i_prec 80)]]. Qed.
Lemma d_A02_101u : close ctol (84234298085405 / 140737488355328) (volts_A02 (7676406352675931 / 70368744177664)).
Proof. apply (A02_q_volts_mid 7676406352675931 70368744177664 84234298085405 140737488355328); [vm_compute; reflexivity | unfold fr, close, ctol, A02_lo, A02_hi, A02_c, A02_e; interval with (i_prec 80)]. Qed.
Lemma d_A02_114u : close ctol (4576502124446783 / 9007199254740992) (volts_A02 (1147486753329747 / 8796093022208)).
Proof. apply (A02_q_volts_mid 1147486753329747 8796093022208 4576502124446783 9007199254740992); [vm_compute; reflexivity | unfold fr, close, ctol, A02_lo, A02_hi, A02_c, A02_e; interval with (i_prec 80)]. Qed.
Lemma d_A02_127u : close ctol (2978308305710493 / 4503599627370496) (volts_A02 (3441999650449281 / 35184372088832)).
Proof. apply (A02_q_volts_mid 3441999650449281 35184372088832 2978308305710493 4503599627370496); [vm_compute; reflexivity | unfold fr, close, ctol, A02_lo, A02_hi, A02_c, A02_e; interval with (i_prec 80)]. Qed.
Lemma d_A02_140u : close ctol (2542552557650785 / 2251799813685248) (volts_A02 (7676551098903155 / 140737488355328)).
Proof. apply (A02_q_volts_mid 7676551098903155 140737488355328 2542552557650785 2251799813685248); [vm_compute; reflexivity | unfold fr, close, ctol, A02_lo, A02_hi, A02_c, A02_e; interval with (i_prec 80)]. Qed.
Lemma d_A02_152r : rio_reads A02_c A02_e A02_lo A02_hi floor_volts ctol (Build_rio (Fin (456849136524595 / 562949953421312)) (Fin (5 / 1)) (Fin (3645 / 1024)) (Fin (5145 / 1024)) (Fin (10039 / 1024)) true true true ((Fin (59 / 512)) :: (Fin (675 / 512)) :: (Fin (991 / 512)) :: (Fin (125377 / 1024)) :: (Fin (9143 / 1024)) :: (Fin (411 / 512)) :: nil)) (5505154422276957 / 70368744177664).
Proof. apply (A02_rio_fin _ (456849136524595 / 562949953421312)); [reflexivity | apply (A02_q_mid 456849136524595 562949953421312 5505154422276957 70368744177664); [vm_compute; reflexivity | unfold fr, close, ctol, A02_c, A02_e; interval with (i_prec 80)]]. Qed.
Lemma d_A02_165u : close ctol (8308476880671015 / 18014398509481984) (volts_A02 (7187195672709091 / 17592186044416)).
Proof. apply (A02_q_volts_hi 7187195672709091 17592186044416 8308476880671015 18014398509481984); [vm_compute; reflexivity | unfold fr, close, ctol, A02_lo, A02_hi, A02_c, A02_e; interval with (i_prec 80)]. Qed.
Lemma d_A02_178u : close ctol (357539307115111 / 140737488355328) (volts_A02 ((-322885894205073) / 281474976710656)).
Proof. apply (A02_q_volts_lo (-322885894205073) 281474976710656 357539307115111 140737488355328); [vm_compute; reflexivity | unfold fr, close, ctol, A02_lo, A02_hi, A02_c, A02_e; interval with (i_prec 80)]. Qed.
Lemma d_A02_191u : close ctol (2723486727869369 / 4503599627370496) (volts_A02 (948787389580531 / 8796093022208)).
Proof. apply (A02_q_volts_mid 948787389580531 8796093022208 2723486727869369 4503599627370496); [vm_compute; reflexivity | unfold fr, close, ctol, A02_lo, A02_hi, A02_c, A02_e; interval with (i_prec 80)]. Qed.
Lemma d_A02_204u : close ctol (357539307115111 / 140737488355328) (volts_A02 ((-933500848926831) / 562949953421312)).
Proof. apply (A02_q_volts_lo (-933500848926831) 562949953421312 357539307115111 140737488355328); [vm_compute; reflexivity | unfold fr, close, ctol, A02_lo, A02_hi, A02_c, A02_e; interval with (i_prec 80)]. Qed.
Lemma d_A02_216r : rio_reads A02_c A02_e A02_lo A02_hi floor_volts ctol (Build_rio (Fin (7753451721956981 / 4503599627370496)) (Fin (14183 / 1024)) (Fin (3607 / 1024)) (Fin (75 / 8)) (Fin (207 / 16)) true true true ((Fin (479 / 512)) :: (Fin (75 / 64)) :: (Fin (1405 / 1024)) :: (Fin (64889 / 1024)) :: (Fin (3763 / 1024)) :: (Fin (50415 / 1024)) :: nil)) (302689291064039 / 8796093022208).
Proof. apply (A02_rio_fin _ (7753451721956981 / 4503599627370496)); [reflexivity | apply (A02_q_mid 7753451721956981 4503599627370496 302689291064039 8796093022208); [vm_compute; reflexivity | unfold fr, close, ctol, A02_c, A02_e; interval with (i_prec 80)]]. Qed.
Lemma d_A02_229u : close ctol (7752793758925121 / 9007199254740992) (volts_A02 (1290601168450207 / 17592186044416)).
Proof. apply (A02_q_volts_mid 1290601168450207 17592186044416 7752793758925121 9007199254740992); [vm_compute; reflexivity | unfold fr, close, ctol, A02_lo, A02_hi, A02_c, A02_e; interval with (i_prec 80)]. Qed.
Lemma d_A02_242u : close ctol (8308476880671015 / 18014398509481984) (volts_A02 (7552239152838223 / 17592186044416)).
Proof. apply (A02_q_volts_hi 7552239152838223 17592186044416 8308476880671015 18014398509481984); [vm_compute; reflexivity | unfold fr, close, ctol, A02_lo, A02_hi, A02_c, A02_e; interval with (i_prec 80)]. Qed.
Lemma d_A02_255u : close ctol (1732081039919593 / 2251799813685248) (volts_A02 (1459198749358417 / 17592186044416)).
Proof. apply (A02_q_volts_mid 1459198749358417 17592186044416 1732081039919593 2251799813685248); [vm_compute; reflexivity | unfold fr, close, ctol, A02_lo, A02_hi, A02_c, A02_e; interval with (i_prec 80)]. Qed.
Lemma d_A02_268u : close ctol (8308476880671015 / 18014398509481984) (volts_A02 (2534594337119161 / 8796093022208)).
Proof. apply (A02_q_volts_hi 2534594337119161 8796093022208 8308476880671015 18014398509481984); [vm_compute; reflexivity | unfold fr, close, ctol, A02_lo, A02_hi, A02_c, A02_e; interval with (i_prec 80)]. Qed.
Lemma d_A02_280r : rio_reads A02_c A02_e A02_lo A02_hi floor_volts ctol (Build_rio (Fin (8359307785816533 / 9007199254740992)) (Fin (5 / 1)) (Fin (423 / 128)) (Fin (6 / 1)) (Fin (10059 / 1024)) false false true ((Fin (425 / 512)) :: (Fin (1111 / 1024)) :: (Fin (27 / 64)) :: (Fin (119343 / 1024)) :: (Fin (4661 / 1024)) :: (Fin (29299 / 1024)) :: nil)) (1188695057746283 / 17592186044416).
Proof. apply (A02_rio_fin _ (8359307785816533 / 9007199254740992)); [reflexivity | apply (A02_q_mid 8359307785816533 9007199254740992 1188695057746283 17592186044416); [vm_compute; reflexivity | unfold fr, close, ctol, A02_c, A02_e; interval with (i_prec 80)]]. Qed.
Lemma d_A02_293u : close ctol (4713657469616101 / 4503599627370496) (volts_A02 (2084868772833983 / 35184372088832)).
Proof. apply (A02_q_volts_mid 2084868772833983 35184372088832 4713657469616101 4503599627370496); [vm_compute; reflexivity | unfold fr, close, ctol, A02_lo, A02_hi, A02_c, A02_e; interval with (i_prec 80)]. Qed.
Lemma d_A02_306u : close ctol (8411884413087645 / 18014398509481984) (volts_A02 (1258321803932997 / 8796093022208)).
Proof. apply (A02_q_volts_mid 1258321803932997 8796093022208 8411884413087645 18014398509481984); [vm_compute; reflexivity | unfold fr, close, ctol, A02_lo, A02_hi, A02_c, A02_e; interval with (i_prec 80)]. Qed.
Lemma d_A02_319u : close ctol (2042027905215423 / 2251799813685248) (volts_A02 (4876447763994193 / 70368744177664)).
Proof. apply (A02_q_volts_mid 4876447763994193 70368744177664 2042027905215423 2251799813685248); [vm_compute; reflexivity | unfold fr, close, ctol, A02_lo, A02_hi, A02_c, A02_e; interval with (i_prec 80)]. Qed.
Lemma d_A02_332u : close ctol (6585552318872961 / 9007199254740992) (volts_A02 (1542331593979125 / 17592186044416)).
Proof. apply (A02_q_volts_mid 1542331593979125 17592186044416 6585552318872961 9007199254740992); [vm_compute; reflexivity | unfold fr, close, ctol, A02_lo, A02_hi, A02_c, A02_e; interval with (i_prec 80)]. Qed.
Lemma d_A02_344r : rio_reads A02_c A02_e A02_lo A02_hi floor_volts ctol (Build_rio (Fin (8308476880671015 / 18014398509481984)) (Fin (1809 / 256)) (Fin (0 / 1)) (Fin (6325 / 1024)) (Fin (6493 / 512)) true false true ((Fin (2987 / 1024)) :: (Fin (665 / 512)) :: (Fin (1381 / 1024)) :: (Fin (1791 / 256)) :: (Fin (3507 / 1024)) :: (Fin ((-2457) / 512)) :: nil)) (145 / 1).
Proof. apply (A02_rio_fin _ (8308476880671015 / 18014398509481984)); [reflexivity | apply (A02_q_hi 8308476880671015 18014398509481984 145 1); [vm_compute; reflexivity | unfold fr, ctol, A02_hi, A02_c, A02_e; interval with (i_prec 80)]]. Qed.
Lemma d_A02_357u : close ctol (8308476880671015 / 18014398509481984) (volts_A02 (2670650937441015 / 8796093022208)).
Proof. apply (A02_q_volts_hi 2670650937441015 8796093022208 8308476880671015 18014398509481984); [vm_compute; reflexivity | unfold fr, close, ctol, A02_lo, A02_hi, A02_c, A02_e; interval with (i_prec 80)]. Qed.
Lemma d_A02_370u : close ctol (8308476880671015 / 18014398509481984) (volts_A02 (2974544122368067 / 8796093022208)).
Proof. apply (A02_q_volts_hi 2974544122368067 8796093022208 8308476880671015 18014398509481984); [vm_compute; reflexivity | unfold fr, close, ctol, A02_lo, A02_hi, A02_c, A02_e; interval with (i_prec 80)]. Qed.
Lemma d_A02_383u : close ctol (8308476880671015 / 18014398509481984) (volts_A02 (3691023008675045 / 8796093022208)).
Proof. apply (A02_q_volts_hi 3691023008675045 8796093022208 8308476880671015 18014398509481984); [vm_compute; reflexivity | unfold fr, close, ctol, A02_lo, A02_hi, A02_c, A02_e; interval with (i_prec 80)]. Qed.
Lemma d_A02_396u : close ctol (357539307115111 / 140737488355328) (volts_A02 ((-10131288330937) / 140737488355328)).
Proof. apply (A02_q_volts_lo (-10131288330937) 140737488355328 357539307115111 140737488355328); [vm_compute; reflexivity | unfold fr, close, ctol, A02_lo, A02_hi, A02_c, A02_e; interval with (i_prec 80)]. Qed.
Lemma d_A02_408r : rio_reads A02_c A02_e A02_lo A02_hi floor_volts ctol (Build_rio (Fin (6583899685662391 / 4503599627370496)) (Fin (4971 / 1024)) (Fin (1399 / 512)) (Fin (6 / 1)) (Fin (12995 / 1024)) false false true ((Fin (117 / 64)) :: (Fin (1231 / 1024)) :: (Fin (1375 / 512)) :: (Fin (61827 / 1024)) :: (Fin (6999 / 1024)) :: (Fin (38501 / 1024)) :: nil)) (1447444840270757 / 35184372088832).
Proof. apply (A02_rio_fin _ (6583899685662391 / 4503599627370496)); [reflexivity | apply (A02_q_mid 6583899685662391 4503599627370496 1447444840270757 35184372088832); [vm_compute; reflexivity | unfold fr, close, ctol, A02_c, A02_e; interval with (i_prec 80)]]. Qed.
Lemma d_A02_421u : close ctol (5059038713067305 / 2251799813685248) (volts_A02 (452677253881045 / 17592186044416)).
Proof. apply (A02_q_volts_mid 452677253881045 17592186044416 5059038713067305 2251799813685248); [vm_compute; reflexivity | unfold fr, close, ctol, A02_lo, A02_hi, A02_c, A02_e; interval with (i_prec 80)]. Qed.
Lemma d_A02_434u : close ctol (6410483712631033 / 4503599627370496) (volts_A02 (372564041796689 / 8796093022208)).
Proof. apply (A02_q_volts_mid 372564041796689 8796093022208 6410483712631033 4503599627370496); [vm_compute; reflexivity | unfold fr, close, ctol, A02_lo, A02_hi, A02_c, A02_e; interval with (i_prec 80)]. Qed.
Lemma d_A02_447u : close ctol (357539307115111 / 140737488355328) (volts_A02 (4102010803670101 / 281474976710656)).
Proof. apply (A02_q_volts_lo 4102010803670101 281474976710656 357539307115111 140737488355328); [vm_compute; reflexivity | unfold fr, close, ctol, A02_lo, A02_hi, A02_c, A02_e; interval with (i_prec 80)]. Qed.
Lemma d_A02_460u : close ctol (8308476880671015 / 18014398509481984) (volts_A02 (6912270370075857 / 549755813888)).
Proof. apply (A02_q_volts_hi 6912270370075857 549755813888 8308476880671015 18014398509481984); [vm_compute; reflexivity | unfold fr, close, ctol, A02_lo, A02_hi, A02_c, A02_e; interval with (i_prec 80)]. Qed.
Lemma d_A02_472r : rio_reads A02_c A02_e A02_lo A02_hi floor_volts ctol (Build_rio (Fin (71681223221023 / 140737488355328)) (Fin (5993 / 1024)) (Fin (3715469692580659 / 1125899906842624)) (Fin (6737 / 512)) (Fin ((-12) / 1)) true true true ((Fin (1335 / 1024)) :: (Fin (357 / 512)) :: (Fin (443 / 1024)) :: (Fin (4019 / 1024)) :: (Fin (6495 / 1024)) :: (Fin ((-4251) / 512)) :: nil)) (2288912575498619 / 17592186044416).
Proof. apply (A02_rio_fin _ (71681223221023 / 140737488355328)); [reflexivity | apply (A02_q_mid 71681223221023 140737488355328 2288912575498619 17592186044416); [vm_compute; reflexivity | unfold fr, close, ctol, A02_c, A02_e; interval with (i_prec 80)]]. Qed.
Lemma d_A02_485u : close ctol (640723734946869 / 1125899906842624) (volts_A02 (4055567601957879 / 35184372088832)).
Proof. apply (A02_q_volts_mid 4055567601957879 35184372088832 640723734946869 1125899906842624); [vm_compute; reflexivity | unfold fr, close, ctol, A02_lo, A02_hi, A02_c, A02_e; interval with (i_prec 80)]. Qed.
Lemma d_A02_498u : close ctol (8161126360849277 / 9007199254740992) (volts_A02 (4881005779345205 / 70368744177664)).
Proof. apply (A02_q_volts_mid 4881005779345205 70368744177664 8161126360849277 9007199254740992); [vm_compute; reflexivity | unfold fr, close, ctol, A02_lo, A02_hi, A02_c, A02_e; interval with (i_prec 80)]. Qed.
Lemma d_A02_511u : close ctol (8308476880671015 / 18014398509481984) (volts_A02 (5464930102993781 / 17592186044416)).
Proof. apply (A02_q_volts_hi 5464930102993781 17592186044416 8308476880671015 18014398509481984); [vm_compute; reflexivity | unfold fr, close, ctol, A02_lo, A02_hi, A02_c, A02_e; interval with (i_prec 80)]. Qed.
Lemma d_A02_524u : close ctol (8668221790554311 / 9007199254740992) (volts_A02 (285628062894849 / 4398046511104)).
Proof. apply (A02_q_volts_mid 285628062894849 4398046511104 8668221790554311 9007199254740992); [vm_compute; reflexivity | unfold fr, close, ctol, A02_lo, A02_hi, A02_c, A02_e; interval with (i_prec 80)]. Qed.
Lemma d_A02_536r : rio_reads A02_c A02_e A02_lo A02_hi floor_volts ctol (Build_rio (Fin (4727079776178005 / 9007199254740992)) (Fin (4671 / 1024)) (Fin (1799 / 512)) (Fin (181 / 32)) (Fin (217 / 128)) true true true ((Fin (2149 / 1024)) :: (Fin (675 / 1024)) :: (Fin (2273 / 1024)) :: (Fin (45735 / 1024)) :: (Fin (3987 / 1024)) :: (Fin ((-2361) / 256)) :: nil)) (8861045203707515 / 70368744177664).
Proof. apply (A02_rio_fin _ (4727079776178005 / 9007199254740992)); [reflexivity | apply (A02_q_mid 4727079776178005 9007199254740992 8861045203707515 70368744177664); [vm_compute; reflexivity | unfold fr, close, ctol, A02_c, A02_e; interval with (i_prec 80)]]. Qed.
Lemma d_A02_549u : close ctol (4543994569506559 / 9007199254740992) (volts_A02 (2312908012012967 / 17592186044416)).
Proof. apply (A02_q_volts_mid 2312908012012967 17592186044416 4543994569506559 9007199254740992); [vm_compute; reflexivity | unfold fr, close, ctol, A02_lo, A02_hi, A02_c, A02_e; interval with (i_prec 80)]. Qed.
Lemma d_A02_562u : close ctol (8308476880671015 / 18014398509481984) (volts_A02 (2632154978576971 / 17592186044416)).
Proof. apply (A02_q_volts_hi 2632154978576971 17592186044416 8308476880671015 18014398509481984); [vm_compute; reflexivity | unfold fr, close, ctol, A02_lo, A02_hi, A02_c, A02_e; interval with (i_prec 80)]. Qed.
Lemma d_A02_575u : close ctol (5768335045919797 / 4503599627370496) (volts_A02 (3344633662092301 / 70368744177664)).
Proof. apply (A02_q_volts_mid 3344633662092301 70368744177664 5768335045919797 4503599627370496); [vm_compute; reflexivity | unfold fr, close, ctol, A02_lo, A02_hi, A02_c, A02_e; interval with (i_prec 80)]. Qed.
Lemma d_A02_588u : close ctol (3595032188841939 / 4503599627370496) (volts_A02 (5605162901133289 / 70368744177664)).
Proof. apply (A02_q_volts_mid 5605162901133289 70368744177664 3595032188841939 4503599627370496); [vm_compute; reflexivity | unfold fr, close, ctol, A02_lo, A02_hi, A02_c, A02_e; interval with (i_prec 80)]. Qed.
Lemma d_A02_600r : rio_reads A02_c A02_e A02_lo A02_hi floor_volts ctol (Build_rio (Fin (1758236368477391 / 2251799813685248)) (Fin (1225 / 256)) (Fin (3273 / 1024)) (Fin (6 / 1)) (Fin (1 / 1)) false false true ((Fin (211 / 128)) :: (Fin (397 / 512)) :: (Fin (749 / 256)) :: (Fin (14509 / 1024)) :: (Fin (3531 / 512)) :: (Fin (21485 / 512)) :: nil)) (1435511132273641 / 17592186044416).
Proof. apply (A02_rio_fin _ (1758236368477391 / 2251799813685248)); [reflexivity | apply (A02_q_mid 1758236368477391 2251799813685248 1435511132273641 17592186044416); [vm_compute; reflexivity | unfold fr, close, ctol, A02_c, A02_e; interval with (i_prec 80)]]. Qed.
Lemma d_A02_613u : close ctol (8308476880671015 / 18014398509481984) (volts_A02 (889208271023005 / 2199023255552)).
Proof. apply (A02_q_volts_hi 889208271023005 2199023255552 8308476880671015 18014398509481984); [vm_compute; reflexivity | unfold fr, close, ctol, A02_lo, A02_hi, A02_c, A02_e; interval with (i_prec 80)]. Qed.
Lemma d_A02_626u : close ctol (2932605369846417 / 2251799813685248) (volts_A02 (3284354023360165 / 70368744177664)).
Proof. apply (A02_q_volts_mid 3284354023360165 70368744177664 2932605369846417 2251799813685248); [vm_compute; reflexivity | unfold fr, close, ctol, A02_lo, A02_hi, A02_c, A02_e; interval with (i_prec 80)]. Qed.
Lemma d_A02_639u : close ctol (357539307115111 / 140737488355328) (volts_A02 ((-1455473072359285) / 562949953421312)).
Proof. apply (A02_q_volts_lo (-1455473072359285) 562949953421312 357539307115111 140737488355328); [vm_compute; reflexivity | unfold fr, close, ctol, A02_lo, A02_hi, A02_c, A02_e; interval with (i_prec 80)]. Qed.
Lemma d_A02_652u : close ctol (8308476880671015 / 18014398509481984) (volts_A02 (5662745329748993 / 17592186044416)).
Proof. apply (A02_q_volts_hi 5662745329748993 17592186044416 8308476880671015 18014398509481984); [vm_compute; reflexivity | unfold fr, close, ctol, A02_lo, A02_hi, A02_c, A02_e; interval with (i_prec 80)]. Qed.
Lemma d_A02_664r : rio_reads A02_c A02_e A02_lo A02_hi floor_volts ctol (Build_rio (Fin (2649579794110191 / 1125899906842624)) (Fin (81 / 16)) (Fin (453 / 128)) NInf (Fin (12493 / 1024)) false false true ((Fin (175 / 256)) :: (Fin (1265 / 1024)) :: (Fin (2281 / 1024)) :: (Fin (9345 / 256)) :: (Fin (3409 / 1024)) :: (Fin (8405 / 1024)) :: nil)) (3442602469171759 / 140737488355328).
Proof. apply (A02_rio_fin _ (2649579794110191 / 1125899906842624)); [reflexivity | apply (A02_q_mid 2649579794110191 1125899906842624 3442602469171759 140737488355328); [vm_compute; reflexivity | unfold fr, close, ctol, A02_c, A02_e; interval with (i_prec 80)]]. Qed.
Lemma r_A21_452 : rio_reads A21_c A21_e A21_lo A21_hi floor_volts ctol (Build_rio (Fin (5 / 1)) (Fin (5 / 1)) (Fin (3715469692580659 / 1125899906842624)) (Fin (6 / 1)) (Fin (0 / 1)) true true true ((Fin (0 / 1)) :: (Fin (0 / 1)) :: (Fin (0 / 1)) :: (Fin (0 / 1)) :: (Fin (27 / 4)) :: (Fin (45 / 1)) :: nil)) (10 / 1).
Proof. apply (A21_rio_fin _ (5 / 1)); [reflexivity | apply (A21_q_lo 5 1 10 1); [vm_compute; reflexivity | unfold fr, ctol, A21_lo, A21_c, A21_e; interval with (i_prec 80)]]. Qed.
Lemma r_A21_470 : rio_reads A21_c A21_e A21_lo A21_hi floor_volts ctol (Build_rio (Fin (2489100355631953 / 1125899906842624)) (Fin (5 / 1)) (Fin (3715469692580659 / 1125899906842624)) (Fin (6 / 1)) (Fin (12 / 1)) true false true ((Fin (0 / 1)) :: (Fin (0 / 1)) :: (Fin (0 / 1)) :: (Fin (0 / 1)) :: (Fin (27 / 4)) :: (Fin (45 / 1)) :: nil)) (10 / 1).
Proof. apply (A21_rio_fin _ (2489100355631953 / 1125899906842624)); [reflexivity | apply (A21_q_lo 2489100355631953 1125899906842624 10 1); [vm_compute; reflexivity | unfold fr, ctol, A21_lo, A21_c, A21_e; interval with (i_prec 80)]]. Qed.
Lemma r_A21_486 : rio_reads A21_c A21_e A21_lo A21_hi floor_volts ctol (Build_rio (Fin (2265 / 1024)) (Fin (0 / 1)) (Fin (0 / 1)) (Fin (0 / 1)) (Fin (12 / 1)) false false false ((Fin (0 / 1)) :: (Fin (0 / 1)) :: (Fin (0 / 1)) :: (Fin (0 / 1)) :: (Fin (27 / 4)) :: (Fin (45 / 1)) :: nil)) (10 / 1).
Proof. apply (A21_rio_fin _ (2265 / 1024)); [reflexivity | apply (A21_q_lo 2265 1024 10 1); [vm_compute; reflexivity | unfold fr, ctol, A21_lo, A21_c, A21_e; interval with (i_prec 80)]]. Qed.
Lemma r_A21_502 : rio_reads A21_c A21_e A21_lo A21_hi floor_volts ctol (Build_rio (Fin (15 / 64)) (Fin (5 / 1)) (Fin (100000000000000001097906362944045541740492309677311846336810682903157585404911491537163328978494688899061249669721172515611590283743140088328307009198146046031271664502933027185697489699588559043338384466165001178426897626212945177628091195786707458122783970171784415105291802893207873272974885715430223118336 / 1)) (Fin (6 / 1)) (Fin (12 / 1)) true false true ((Fin (759 / 256)) :: (Fin (1989 / 1024)) :: (Fin (299 / 256)) :: (Fin (59747 / 1024)) :: (Fin (8733 / 1024)) :: (Fin ((-8595) / 1024)) :: nil)) (80 / 1).
Proof. apply (A21_rio_fin _ (15 / 64)); [reflexivity | apply (A21_q_hi 15 64 80 1); [vm_compute; reflexivity | unfold fr, ctol, A21_hi, A21_c, A21_e; interval with (i_prec 80)]]. Qed.
Lemma r_A21_518 : rio_reads A21_c A21_e A21_lo A21_hi floor_volts ctol (Build_rio (Fin (35 / 64)) (Fin (5 / 1)) (Fin (679 / 256)) (Fin (6589 / 1024)) (Fin (5902958103587057 / 590295810358705651712)) true false true ((Fin (187 / 64)) :: (Fin (71 / 256)) :: (Fin (171 / 256)) :: (Fin (150159 / 1024)) :: (Fin (3025 / 512)) :: (Fin (63997 / 1024)) :: nil)) (7801323342702893 / 140737488355328).
Proof. apply (A21_rio_fin _ (35 / 64)); [reflexivity | apply (A21_q_mid 35 64 7801323342702893 140737488355328); [vm_compute; reflexivity | unfold fr, close, ctol, A21_c, A21_e; interval with (i_prec 80)]]. Qed.
Lemma r_A21_534 : rio_reads A21_c A21_e A21_lo A21_hi floor_volts ctol (Build_rio (Fin (55 / 64)) (Fin (4531 / 1024)) (Fin (3715469692580659 / 1125899906842624)) (Fin (11131 / 1024)) (Fin (12 / 1)) true true true ((Fin (289 / 512)) :: (Fin (753 / 1024)) :: (Fin (967 / 1024)) :: (Fin (2823 / 256)) :: (Fin (3773 / 512)) :: (Fin (89505 / 1024)) :: nil)) (8964808961648771 / 281474976710656).
Proof. apply (A21_rio_fin _ (55 / 64)); [reflexivity | apply (A21_q_mid 55 64 8964808961648771 281474976710656); [vm_compute; reflexivity | unfold fr, close, ctol, A21_c, A21_e; interval with (i_prec 80)]]. Qed.
Lemma r_A21_550 : rio_reads A21_c A21_e A21_lo A21_hi floor_volts ctol (Build_rio (Fin (75 / 64)) (Fin (1245 / 256)) (Fin (1441 / 512)) (Fin (6 / 1)) NInf true false true ((Fin (143 / 256)) :: (Fin (1811 / 1024)) :: (Fin (437 / 1024)) :: (Fin (33923 / 256)) :: (Fin (2579 / 512)) :: (Fin ((-5369) / 512)) :: nil)) (6129154764553169 / 281474976710656).
Proof. apply (A21_rio_fin _ (75 / 64)); [reflexivity | apply (A21_q_mid 75 64 6129154764553169 281474976710656); [vm_compute; reflexivity | unfold fr, close, ctol, A21_c, A21_e; interval with (i_prec 80)]]. Qed.
Lemma r_A21_566 : rio_reads A21_c A21_e A21_lo A21_hi floor_volts ctol (Build_rio (Fin (95 / 64)) (Fin (1327 / 256)) (Fin (25 / 8)) (Fin (1 / 202402253307310618352495346718917307049556649764142118356901358027430339567995346891960383701437124495187077864316811911389808737385793476867013399940738509921517424276566361364466907742093216341239767678472745068562007483424692698618103355649159556340810056512358769552333414615230502532186327508646006263307707741093494784)) (Fin (3203 / 256)) true false true ((Fin (1097 / 512)) :: (Fin (1331 / 1024)) :: (Fin (943 / 512)) :: (Fin (103221 / 1024)) :: (Fin (1857 / 512)) :: (Fin (4833 / 64)) :: nil)) (4587082556901895 / 281474976710656).
Proof. apply (A21_rio_fin _ (95 / 64)); [reflexivity | apply (A21_q_mid 95 64 4587082556901895 281474976710656); [vm_compute; reflexivity | unfold fr, close, ctol, A21_c, A21_e; interval with (i_prec 80)]]. Qed.
Lemma r_A21_582 : rio_reads A21_c A21_e A21_lo A21_hi floor_volts ctol (Build_rio (Fin (115 / 64)) (Fin (5043 / 1024)) (Fin (3715469692580659 / 1125899906842624)) (Fin (6 / 1)) (Fin (6431 / 512)) true false true ((Fin (1233 / 1024)) :: (Fin (19 / 1024)) :: (Fin (767 / 512)) :: (Fin (63879 / 1024)) :: (Fin (6831 / 1024)) :: (Fin (4671 / 256)) :: nil)) (1814596833317447 / 140737488355328).
Proof. apply (A21_rio_fin _ (115 / 64)); [reflexivity | apply (A21_q_mid 115 64 1814596833317447 140737488355328); [vm_compute; reflexivity | unfold fr, close, ctol, A21_c, A21_e; interval with (i_prec 80)]]. Qed.
Lemma r_A21_598 : rio_reads A21_c A21_e A21_lo A21_hi floor_volts ctol (Build_rio (Fin (135 / 64)) (Fin (2541 / 512)) (Fin (1711 / 512)) (Fin (6343 / 1024)) (Fin (823 / 64)) true true true ((Fin (125 / 256)) :: (Fin (93 / 512)) :: (Fin (1147 / 1024)) :: (Fin (18477 / 256)) :: (Fin (1117 / 256)) :: (Fin (64987 / 1024)) :: nil)) (5963023104435683 / 562949953421312).
Proof. apply (A21_rio_fin _ (135 / 64)); [reflexivity | apply (A21_q_mid 135 64 5963023104435683 562949953421312); [vm_compute; reflexivity | unfold fr, close, ctol, A21_c, A21_e; interval with (i_prec 80)]]. Qed.
Lemma r_A21_614 : rio_reads A21_c A21_e A21_lo A21_hi floor_volts ctol (Build_rio (Fin (155 / 64)) (Fin (4615 / 1024)) (Fin (3103 / 1024)) (Fin (2871 / 512)) PInf true true false ((Fin (3065 / 1024)) :: (Fin (509 / 1024)) :: (Fin (1755 / 1024)) :: (Fin (134859 / 1024)) :: (Fin (3575 / 1024)) :: (Fin (3943 / 64)) :: nil)) (10 / 1).
Proof. apply (A21_rio_fin _ (155 / 64)); [reflexivity | apply (A21_q_lo 155 64 10 1); [vm_compute; reflexivity | unfold fr, ctol, A21_lo, A21_c, A21_e; interval with (i_prec 80)]]. Qed.
Lemma r_A21_630 : rio_reads A21_c A21_e A21_lo A21_hi floor_volts ctol (Build_rio (Fin (175 / 64)) (Fin (5 / 1)) (Fin (729 / 256)) (Fin (6 / 1)) (Fin (6271 / 512)) true true true ((Fin (1081 / 1024)) :: (Fin (277 / 256)) :: (Fin (2699 / 1024)) :: (Fin (70567 / 512)) :: (Fin (1543 / 256)) :: (Fin (24611 / 1024)) :: nil)) (10 / 1).
Proof. apply (A21_rio_fin _ (175 / 64)); [reflexivity | apply (A21_q_lo 175 64 10 1); [vm_compute; reflexivity | unfold fr, ctol, A21_lo, A21_c, A21_e; interval with (i_prec 80)]]. Qed.
Lemma r_A21_646 : rio_reads A21_c A21_e A21_lo A21_hi floor_volts ctol (Build_rio (Fin (195 / 64)) (Fin (4181 / 1024)) NInf (Fin (3349 / 512)) (Fin (1613 / 128)) false true true ((Fin (2957 / 1024)) :: (Fin (135 / 128)) :: (Fin (2167 / 1024)) :: (Fin (14723 / 256)) :: (Fin (7271 / 1024)) :: (Fin (10433 / 512)) :: nil)) (10 / 1).
Proof. apply (A21_rio_fin _ (195 / 64)); [reflexivity | apply (A21_q_lo 195 64 10 1); [vm_compute; reflexivity | unfold fr, ctol, A21_lo, A21_c, A21_e; interval with (i_prec 80)]]. Qed.
Lemma r_A21_662 : rio_reads A21_c A21_e A21_lo A21_hi floor_volts ctol (Build_rio (Fin (215 / 64)) (Fin (5619 / 1024)) (Fin (3715469692580659 / 1125899906842624)) (Fin (3105 / 512)) (Fin (12 / 1)) true false true ((Fin (459 / 512)) :: (Fin (91 / 256)) :: (Fin (267 / 1024)) :: (Fin (73057 / 512)) :: (Fin (3359 / 1024)) :: (Fin ((-247) / 32)) :: nil)) (10 / 1).
Proof. apply (A21_rio_fin _ (215 / 64)); [reflexivity | apply (A21_q_lo 215 64 10 1); [vm_compute; reflexivity | unfold fr, ctol, A21_lo, A21_c, A21_e; interval with (i_prec 80)]]. Qed.
Lemma r_A21_678 : rio_reads A21_c A21_e A21_lo A21_hi floor_volts ctol (Build_rio (Fin (235 / 64)) (Fin (823 / 512)) (Fin ((-1) / 1)) (Fin (835 / 128)) (Fin (6123 / 512)) true false true ((Fin (609 / 1024)) :: (Fin (509 / 512)) :: (Fin (213 / 128)) :: (Fin (34599 / 512)) :: (Fin (4319 / 1024)) :: (Fin (28575 / 512)) :: nil)) (10 / 1).
Proof. apply (A21_rio_fin _ (235 / 64)); [reflexivity | apply (A21_q_lo 235 64 10 1); [vm_compute; reflexivity | unfold fr, ctol, A21_lo, A21_c, A21_e; interval with (i_prec 80)]]. Qed.
Lemma r_A21_694 : rio_reads A21_c A21_e A21_lo A21_hi floor_volts ctol (Build_rio (Fin (255 / 64)) (Fin (5 / 1)) (Fin (3297 / 256)) (Fin (751 / 128)) (Fin (10091 / 1024)) true false true ((Fin (395 / 1024)) :: (Fin (817 / 512)) :: (Fin (989 / 1024)) :: (Fin (46393 / 512)) :: (Fin (2721 / 512)) :: (Fin (4979 / 64)) :: nil)) (10 / 1).
Proof. apply (A21_rio_fin _ (255 / 64)); [reflexivity | apply (A21_q_lo 255 64 10 1); [vm_compute; reflexivity | unfold fr, ctol, A21_lo, A21_c, A21_e; interval with (i_prec 80)]]. Qed.
Lemma r_A21_710 : rio_reads A21_c A21_e A21_lo A21_hi floor_volts ctol (Build_rio (Fin (275 / 64)) (Fin (4505 / 1024)) (Fin (1531 / 512)) (Fin (5615 / 1024)) (Fin (10735 / 1024)) true true true ((Fin (615 / 256)) :: (Fin (659 / 1024)) :: (Fin (19 / 512)) :: (Fin (186013 / 1024)) :: (Fin (3007 / 512)) :: (Fin ((-1105) / 64)) :: nil)) (10 / 1).
Proof. apply (A21_rio_fin _ (275 / 64)); [reflexivity | apply (A21_q_lo 275 64 10 1); [vm_compute; reflexivity | unfold fr, ctol, A21_lo, A21_c, A21_e; interval with (i_prec 80)]]. Qed.
Lemma r_A21_726 : rio_reads A21_c A21_e A21_lo A21_hi floor_volts ctol (Build_rio (Fin (295 / 64)) (Fin (5 / 1)) (Fin (909 / 256)) (Fin (2851 / 1024)) (Fin (0 / 1)) true true false ((Fin (1205 / 512)) :: (Fin (1961 / 1024)) :: (Fin (19 / 8)) :: (Fin (16279 / 1024)) :: (Fin (3723 / 1024)) :: (Fin (70807 / 1024)) :: nil)) (10 / 1).
Proof. apply (A21_rio_fin _ (295 / 64)); [reflexivity | apply (A21_q_lo 295 64 10 1); [vm_compute; reflexivity | unfold fr, ctol, A21_lo, A21_c, A21_e; interval with (i_prec 80)]]. Qed.
Lemma r_A21_742 : rio_reads A21_c A21_e A21_lo A21_hi floor_volts ctol (Build_rio (Fin (315 / 64)) (Fin (4125 / 1024)) (Fin (3127 / 1024)) (Fin (6 / 1)) (Fin (2603 / 256)) true false true ((Fin (707 / 1024)) :: (Fin (233 / 256)) :: (Fin (1245 / 1024)) :: (Fin (98811 / 512)) :: (Fin (2585 / 512)) :: (Fin (12265 / 128)) :: nil)) (10 / 1).
Proof. apply (A21_rio_fin _ (315 / 64)); [reflexivity | apply (A21_q_lo 315 64 10 1); [vm_compute; reflexivity | unfold fr, ctol, A21_lo, A21_c, A21_e; interval with (i_prec 80)]]. Qed.
Lemma r_A21_758 : rio_reads A21_c A21_e A21_lo A21_hi floor_volts ctol (Build_rio (Fin (1172220153864249 / 281474976710656)) (Fin (5 / 1)) (Fin (3603 / 1024)) PInf (Fin (10825 / 1024)) true true true ((Fin (1241 / 1024)) :: (Fin (553 / 512)) :: (Fin (2653 / 1024)) :: (Fin (87529 / 512)) :: (Fin (5543 / 1024)) :: (Fin (98219 / 1024)) :: nil)) (10 / 1).
Proof. apply (A21_rio_fin _ (1172220153864249 / 281474976710656)); [reflexivity | apply (A21_q_lo 1172220153864249 281474976710656 10 1); [vm_compute; reflexivity | unfold fr, ctol, A21_lo, A21_c, A21_e; interval with (i_prec 80)]]. Qed.
Lemma r_A21_774 : rio_reads A21_c A21_e A21_lo A21_hi floor_volts ctol (Build_rio (Fin (6680955442382435 / 2251799813685248)) (Fin (5 / 1)) (Fin (5019 / 1024)) (Fin (6 / 1)) (Fin (6413 / 512)) false true true ((Fin (2615 / 1024)) :: (Fin (63 / 128)) :: (Fin (1055 / 512)) :: (Fin (40941 / 1024)) :: (Fin (483 / 128)) :: (Fin (42487 / 1024)) :: nil)) (10 / 1).
Proof. apply (A21_rio_fin _ (6680955442382435 / 2251799813685248)); [reflexivity | apply (A21_q_lo 6680955442382435 2251799813685248 10 1); [vm_compute; reflexivity | unfold fr, ctol, A21_lo, A21_c, A21_e; interval with (i_prec 80)]]. Qed.
Lemma r_A21_790 : rio_reads A21_c A21_e A21_lo A21_hi floor_volts ctol (Build_rio (Fin (5391634606892253 / 1125899906842624)) (Fin (5311 / 1024)) (Fin (3495 / 1024)) (Fin (5739 / 1024)) (Fin (12 / 1)) true true true ((Fin (1729 / 1024)) :: (Fin (15 / 64)) :: (Fin (2959 / 1024)) :: (Fin (20093 / 256)) :: (Fin (6681 / 1024)) :: (Fin (23743 / 256)) :: nil)) (10 / 1).
Proof. apply (A21_rio_fin _ (5391634606892253 / 1125899906842624)); [reflexivity | apply (A21_q_lo 5391634606892253 1125899906842624 10 1); [vm_compute; reflexivity | unfold fr, ctol, A21_lo, A21_c, A21_e; interval with (i_prec 80)]]. Qed.
Lemma r_A21_806 : rio_reads A21_c A21_e A21_lo A21_hi floor_volts ctol (Build_rio (Fin (8001226294622589 / 4611686018427387904)) (Fin (2739 / 512)) (Fin (685 / 256)) (Fin (100000000000000001097906362944045541740492309677311846336810682903157585404911491537163328978494688899061249669721172515611590283743140088328307009198146046031271664502933027185697489699588559043338384466165001178426897626212945177628091195786707458122783970171784415105291802893207873272974885715430223118336 / 1)) (Fin (6157 / 512)) true false true ((Fin (1541 / 1024)) :: (Fin (2023 / 1024)) :: (Fin (2003 / 1024)) :: (Fin (180775 / 1024)) :: (Fin (1205 / 256)) :: (Fin ((-217) / 32)) :: nil)) (80 / 1).
Proof. apply (A21_rio_fin _ (8001226294622589 / 4611686018427387904)); [reflexivity | apply (A21_q_hi 8001226294622589 4611686018427387904 80 1); [vm_compute; reflexivity | unfold fr, ctol, A21_hi, A21_c, A21_e; interval with (i_prec 80)]]. Qed.
Lemma r_A21_827 : rio_reads A21_c A21_e A21_lo A21_hi floor_volts ctol (Build_rio (Fin (4136302399302701 / 17592186044416)) (Fin (1373 / 256)) (Fin (803 / 512)) (Fin (3517 / 256)) (Fin (1 / 1)) true true false ((Fin (117 / 256)) :: (Fin (1777 / 1024)) :: (Fin (1079 / 1024)) :: (Fin (32917 / 512)) :: (Fin (7933 / 1024)) :: (Fin ((-87) / 128)) :: nil)) (10 / 1).
Proof. apply (A21_rio_fin _ (4136302399302701 / 17592186044416)); [reflexivity | apply (A21_q_lo 4136302399302701 17592186044416 10 1); [vm_compute; reflexivity | unfold fr, ctol, A21_lo, A21_c, A21_e; interval with (i_prec 80)]]. Qed.
Lemma d_A21_667r : rio_reads A21_c A21_e A21_lo A21_hi floor_volts ctol (Build_rio (Fin (2489100355631953 / 1125899906842624)) (Fin (2589569785738035 / 562949953421312)) (Fin (3 / 1)) (Fin (11 / 2)) (Fin (21 / 2)) true true true ((Fin (3 / 2)) :: (Fin (3602879701896397 / 4503599627370496)) :: (Fin (2 / 1)) :: (Fin (90 / 1)) :: (Fin (27 / 4)) :: (Fin (70 / 1)) :: nil)) (10 / 1).
Proof. apply (A21_rio_fin _ (2489100355631953 / 1125899906842624)); [reflexivity | apply (A21_q_lo 2489100355631953 1125899906842624 10 1); [vm_compute; reflexivity | unfold fr, ctol, A21_lo, A21_c, A21_e; interval with (i_prec 80)]]. Qed.
Lemma d_A21_675r : rio_reads A21_c A21_e A21_lo A21_hi floor_volts ctol (Build_rio (Fin (4617692528446043 / 9007199254740992)) (Fin (5854679515581645 / 1125899906842624)) (Fin (3715469692580659 / 1125899906842624)) (Fin (6 / 1)) (Fin (12 / 1)) true true true ((Fin (0 / 1)) :: (Fin (0 / 1)) :: (Fin (0 / 1)) :: (Fin (0 / 1)) :: (Fin (27 / 4)) :: (Fin (45 / 1)) :: nil)) (60 / 1).
Proof. apply (A21_rio_fin _ (4617692528446043 / 9007199254740992)); [reflexivity | apply (A21_q_mid 4617692528446043 9007199254740992 60 1); [vm_compute; reflexivity | unfold fr, close, ctol, A21_c, A21_e; interval with (i_prec 80)]]. Qed.
Lemma d_A21_683r : rio_reads A21_c A21_e A21_lo A21_hi floor_volts ctol (Build_rio (Fin (2489100355631953 / 1125899906842624)) (Fin (5629499534213121 / 1125899906842624)) (Fin (3715469692580659 / 1125899906842624)) (Fin (6 / 1)) (Fin (12 / 1)) true true true ((Fin (0 / 1)) :: (Fin (0 / 1)) :: (Fin (0 / 1)) :: (Fin (0 / 1)) :: (Fin (27 / 4)) :: (Fin (45 / 1)) :: nil)) (10 / 1).
Proof. apply (A21_rio_fin _ (2489100355631953 / 1125899906842624)); [reflexivity | apply (A21_q_lo 2489100355631953 1125899906842624 10 1); [vm_compute; reflexivity | unfold fr, ctol, A21_lo, A21_c, A21_e; interval with (i_prec 80)]]. Qed.
Lemma d_A21_691r : rio_reads A21_c A21_e A21_lo A21_hi floor_volts ctol (Build_rio (Fin (2489100355631953 / 1125899906842624)) (Fin (5 / 1)) (Fin (3715469692580659 / 1125899906842624)) (Fin (6 / 1)) (Fin (7 / 1)) true true true ((Fin (0 / 1)) :: (Fin (0 / 1)) :: (Fin (0 / 1)) :: (Fin (0 / 1)) :: (Fin (27 / 4)) :: (Fin (45 / 1)) :: nil)) (10 / 1).
Proof. apply (A21_rio_fin _ (2489100355631953 / 1125899906842624)); [reflexivity | apply (A21_q_lo 2489100355631953 1125899906842624 10 1); [vm_compute; reflexivity | unfold fr, ctol, A21_lo, A21_c, A21_e; interval with (i_prec 80)]]. Qed.
Lemma d_A21_699r : rio_reads A21_c A21_e A21_lo A21_hi floor_volts ctol (Build_rio (Fin (5358090456764289 / 9007199254740992)) (Fin (5 / 1)) (Fin (3715469692580659 / 1125899906842624)) (Fin (6 / 1)) NInf true true true ((Fin (0 / 1)) :: (Fin (0 / 1)) :: (Fin (0 / 1)) :: (Fin (0 / 1)) :: (Fin (27 / 4)) :: (Fin (45 / 1)) :: nil)) (50 / 1).
Proof. apply (A21_rio_fin _ (5358090456764289 / 9007199254740992)); [reflexivity | apply (A21_q_mid 5358090456764289 9007199254740992 50 1); [vm_compute; reflexivity | unfold fr, close, ctol, A21_c, A21_e; interval with (i_prec 80)]]. Qed.
Lemma d_A21_707r : rio_reads A21_c A21_e A21_lo A21_hi floor_volts ctol (Build_rio (Fin (7303775102731699 / 18014398509481984)) (Fin (5 / 1)) (Fin (3715469692580659 / 1125899906842624)) (Fin (13 / 2)) (Fin (12 / 1)) true true true ((Fin (0 / 1)) :: (Fin (0 / 1)) :: (Fin (0 / 1)) :: (Fin (0 / 1)) :: (Fin (27 / 4)) :: (Fin (45 / 1)) :: nil)) (80 / 1).
Proof. apply (A21_rio_fin _ (7303775102731699 / 18014398509481984)); [reflexivity | apply (A21_q_hi 7303775102731699 18014398509481984 80 1); [vm_compute; reflexivity | unfold fr, ctol, A21_hi, A21_c, A21_e; interval with (i_prec 80)]]. Qed.
Lemma d_A21_715r : rio_reads A21_c A21_e A21_lo A21_hi floor_volts ctol (Build_rio (Fin (2489100355631953 / 1125899906842624)) (Fin (5 / 1)) (Fin (3715469692580659 / 1125899906842624)) (Fin (6 / 1)) (Fin (12 / 1)) true true true ((Fin (1 / 2)) :: (Fin (0 / 1)) :: (Fin (0 / 1)) :: (Fin (0 / 1)) :: (Fin (27 / 4)) :: (Fin (45 / 1)) :: nil)) (10 / 1).
Proof. apply (A21_rio_fin _ (2489100355631953 / 1125899906842624)); [reflexivity | apply (A21_q_lo 2489100355631953 1125899906842624 10 1); [vm_compute; reflexivity | unfold fr, ctol, A21_lo, A21_c, A21_e; interval with (i_prec 80)]]. Qed.
Lemma d_A21_723r : rio_reads A21_c A21_e A21_lo A21_hi floor_volts ctol (Build_rio (Fin (2919460688116111 / 4503599627370496)) (Fin (5 / 1)) (Fin (3715469692580659 / 1125899906842624)) (Fin (6 / 1)) (Fin (12 / 1)) true true true ((Fin (0 / 1)) :: (Fin (0 / 1)) :: (Fin (0 / 1)) :: (Fin (0 / 1)) :: (Fin (0 / 1)) :: (Fin (45 / 1)) :: nil)) (45 / 1).
Proof. apply (A21_rio_fin _ (2919460688116111 / 4503599627370496)); [reflexivity | apply (A21_q_mid 2919460688116111 4503599627370496 45 1); [vm_compute; reflexivity | unfold fr, close, ctol, A21_c, A21_e; interval with (i_prec 80)]]. Qed.
Lemma d_A21_736u : close ctol (503916285966137 / 1125899906842624) (volts_A21 (4986965913238729 / 70368744177664)).
Proof. apply (A21_q_volts_mid 4986965913238729 70368744177664 503916285966137 1125899906842624); [vm_compute; reflexivity | unfold fr, close, ctol, A21_lo, A21_hi, A21_c, A21_e; interval with (i_prec 80)]. Qed.
Lemma d_A21_748r : rio_reads A21_c A21_e A21_lo A21_hi floor_volts ctol (Build_rio (Fin (1171377827656713 / 1125899906842624)) (Fin ((-1) / 1)) (Fin (917 / 256)) (Fin (0 / 1)) (Fin (12 / 1)) false false true ((Fin (789 / 512)) :: (Fin (1101 / 1024)) :: (Fin (1279 / 512)) :: (Fin (3797 / 128)) :: (Fin (953 / 128)) :: (Fin (87127 / 1024)) :: nil)) (7091943411533509 / 281474976710656).
Proof. apply (A21_rio_fin _ (1171377827656713 / 1125899906842624)); [reflexivity | apply (A21_q_mid 1171377827656713 1125899906842624 7091943411533509 281474976710656); [vm_compute; reflexivity | unfold fr, close, ctol, A21_c, A21_e; interval with (i_prec 80)]]. Qed.
Lemma d_A21_761u : close ctol (1010845736602329 / 2251799813685248) (volts_A21 (621093396171889 / 8796093022208)).
Proof. apply (A21_q_volts_mid 621093396171889 8796093022208 1010845736602329 2251799813685248); [vm_compute; reflexivity | unfold fr, close, ctol, A21_lo, A21_hi, A21_c, A21_e; interval with (i_prec 80)]. Qed.
Lemma d_A21_774u : close ctol (7303775102731699 / 18014398509481984) (volts_A21 (166998962029129 / 1099511627776)).
Proof. apply (A21_q_volts_hi 166998962029129 1099511627776 7303775102731699 18014398509481984); [vm_compute; reflexivity | unfold fr, close, ctol, A21_lo, A21_hi, A21_c, A21_e; interval with (i_prec 80)]. Qed.
Lemma d_A21_787u : close ctol (4303887411716729 / 9007199254740992) (volts_A21 (575324227234463 / 8796093022208)).
Proof. apply (A21_q_volts_mid 575324227234463 8796093022208 4303887411716729 9007199254740992); [vm_compute; reflexivity | unfold fr, close, ctol, A21_lo, A21_hi, A21_c, A21_e; interval with (i_prec 80)]. Qed.
Lemma d_A21_800u : close ctol (7837096894075285 / 9007199254740992) (volts_A21 (1103701987655783 / 35184372088832)).
Proof. apply (A21_q_volts_mid 1103701987655783 35184372088832 7837096894075285 9007199254740992); [vm_compute; reflexivity | unfold fr, close, ctol, A21_lo, A21_hi, A21_c, A21_e; interval with (i_prec 80)]. Qed.
Lemma d_A21_812r : rio_reads A21_c A21_e A21_lo A21_hi floor_volts ctol (Build_rio (Fin (7303775102731699 / 18014398509481984)) (Fin (2787 / 1024)) (Fin (11477 / 1024)) (Fin (6 / 1)) (Fin (13075 / 1024)) true true true ((Fin (1073 / 512)) :: (Fin (665 / 1024)) :: (Fin (731 / 256)) :: (Fin (170507 / 1024)) :: (Fin (2275 / 256)) :: (Fin (45603 / 512)) :: nil)) (80 / 1).
Proof. apply (A21_rio_fin _ (7303775102731699 / 18014398509481984)); [reflexivity | apply (A21_q_hi 7303775102731699 18014398509481984 80 1); [vm_compute; reflexivity | unfold fr, ctol, A21_hi, A21_c, A21_e; interval with (i_prec 80)]]. Qed.
Lemma d_A21_825u : close ctol (7591385227083679 / 18014398509481984) (volts_A21 (1342286788059761 / 17592186044416)).
Proof. apply (A21_q_volts_mid 1342286788059761 17592186044416 7591385227083679 18014398509481984); [vm_compute; reflexivity | unfold fr, close, ctol, A21_lo, A21_hi, A21_c, A21_e; interval with (i_prec 80)]. Qed.
Lemma d_A21_838u : close ctol (289566468811069 / 562949953421312) (volts_A21 (4204957760468415 / 70368744177664)).
Proof. apply (A21_q_volts_mid 4204957760468415 70368744177664 289566468811069 562949953421312); [vm_compute; reflexivity | unfold fr, close, ctol, A21_lo, A21_hi, A21_c, A21_e; interval with (i_prec 80)]. Qed.
Lemma d_A21_851u : close ctol (2489100355631953 / 1125899906842624) (volts_A21 ((-7398921979029561) / 2251799813685248)).
Proof. apply (A21_q_volts_lo (-7398921979029561) 2251799813685248 2489100355631953 1125899906842624); [vm_compute; reflexivity | unfold fr, close, ctol, A21_lo, A21_hi, A21_c, A21_e; interval with (i_prec 80)]. Qed.
Lemma d_A21_864u : close ctol (1534227177899389 / 2251799813685248) (volts_A21 (2979132562728465 / 70368744177664)).
Proof. apply (A21_q_volts_mid 2979132562728465 70368744177664 1534227177899389 2251799813685248); [vm_compute; reflexivity | unfold fr, close, ctol, A21_lo, A21_hi, A21_c, A21_e; interval with (i_prec 80)]. Qed.
Lemma d_A21_876r : rio_reads A21_c A21_e A21_lo A21_hi floor_volts ctol (Build_rio (Fin (3727343376038719 / 9007199254740992)) (Fin (2483 / 512)) (Fin (8123 / 1024)) (Fin (6493 / 1024)) (Fin (10653 / 1024)) false true true ((Fin (601 / 1024)) :: (Fin (119 / 1024)) :: (Fin (759 / 512)) :: (Fin (2819 / 128)) :: (Fin (4035 / 512)) :: (Fin (33887 / 1024)) :: nil)) (5490102425756347 / 70368744177664).
Proof. apply (A21_rio_fin _ (3727343376038719 / 9007199254740992)); [reflexivity | apply (A21_q_mid 3727343376038719 9007199254740992 5490102425756347 70368744177664); [vm_compute; reflexivity | unfold fr, close, ctol, A21_c, A21_e; interval with (i_prec 80)]]. Qed.
Lemma d_A21_889u : close ctol (2489100355631953 / 1125899906842624) (volts_A21 (7559914343929645 / 576460752303423488)).
Proof. apply (A21_q_volts_lo 7559914343929645 576460752303423488 2489100355631953 1125899906842624); [vm_compute; reflexivity | unfold fr, close, ctol, A21_lo, A21_hi, A21_c, A21_e; interval with (i_prec 80)]. Qed.
Lemma d_A21_902u : close ctol (7303775102731699 / 18014398509481984) (volts_A21 (153 / 1)).
Proof. apply (A21_q_volts_hi 153 1 7303775102731699 18014398509481984); [vm_compute; reflexivity | unfold fr, close, ctol, A21_lo, A21_hi, A21_c, A21_e; interval with (i_prec 80)]. Qed.
Lemma d_A21_915u : close ctol (8307583295346837 / 18014398509481984) (volts_A21 (1201829641729735 / 17592186044416)).
Proof. apply (A21_q_volts_mid 1201829641729735 17592186044416 8307583295346837 18014398509481984); [vm_compute; reflexivity | unfold fr, close, ctol, A21_lo, A21_hi, A21_c, A21_e; interval with (i_prec 80)]. Qed.
Lemma d_A21_928u : close ctol (2111748629491033 / 4503599627370496) (volts_A21 (4710228520413477 / 70368744177664)).
Proof. apply (A21_q_volts_mid 4710228520413477 70368744177664 2111748629491033 4503599627370496); [vm_compute; reflexivity | unfold fr, close, ctol, A21_lo, A21_hi, A21_c, A21_e; interval with (i_prec 80)]. Qed.
Lemma d_A21_940r : rio_reads A21_c A21_e A21_lo A21_hi floor_volts ctol (Build_rio (Fin (2489100355631953 / 1125899906842624)) (Fin (653 / 128)) (Fin (3485 / 1024)) (Fin (6 / 1)) (Fin (3023 / 256)) true false true ((Fin (325 / 256)) :: (Fin (2005 / 1024)) :: (Fin (1283 / 512)) :: (Fin (93999 / 512)) :: (Fin (1891 / 256)) :: (Fin ((-8911) / 1024)) :: nil)) (10 / 1).
Proof. apply (A21_rio_fin _ (2489100355631953 / 1125899906842624)); [reflexivity | apply (A21_q_lo 2489100355631953 1125899906842624 10 1); [vm_compute; reflexivity | unfold fr, ctol, A21_lo, A21_c, A21_e; interval with (i_prec 80)]]. Qed.
Lemma d_A21_953u : close ctol (2489100355631953 / 1125899906842624) (volts_A21 (395497995311989 / 140737488355328)).
Proof. apply (A21_q_volts_lo 395497995311989 140737488355328 2489100355631953 1125899906842624); [vm_compute; reflexivity | unfold fr, close, ctol, A21_lo, A21_hi, A21_c, A21_e; interval with (i_prec 80)]. Qed.
Lemma d_A21_966u : close ctol (1324416312225169 / 2251799813685248) (volts_A21 (111490669866675 / 2199023255552)).
Proof. apply (A21_q_volts_mid 111490669866675 2199023255552 1324416312225169 2251799813685248); [vm_compute; reflexivity | unfold fr, close, ctol, A21_lo, A21_hi, A21_c, A21_e; interval with (i_prec 80)]. Qed.
Lemma d_A21_979u : close ctol (7303775102731699 / 18014398509481984) (volts_A21 (8263936480202961 / 70368744177664)).
Proof. apply (A21_q_volts_hi 8263936480202961 70368744177664 7303775102731699 18014398509481984); [vm_compute; reflexivity | unfold fr, close, ctol, A21_lo, A21_hi, A21_c, A21_e; interval with (i_prec 80)]. Qed.
Lemma d_A21_992u : close ctol (7303775102731699 / 18014398509481984) (volts_A21 (1614542943149799 / 8796093022208)).
Proof. apply (A21_q_volts_hi 1614542943149799 8796093022208 7303775102731699 18014398509481984); [vm_compute; reflexivity | unfold fr, close, ctol, A21_lo, A21_hi, A21_c, A21_e; interval with (i_prec 80)]. Qed.
Lemma d_A21_1004r : rio_reads A21_c A21_e A21_lo A21_hi floor_volts ctol (Build_rio (Fin (2489100355631953 / 1125899906842624)) (Fin (4269 / 1024)) (Fin (12161 / 1024)) (Fin (2725 / 512)) (Fin (5677 / 1024)) true true true ((Fin (1037 / 512)) :: (Fin (675 / 512)) :: (Fin (1021 / 1024)) :: (Fin (85001 / 1024)) :: (Fin (839 / 128)) :: (Fin (20445 / 512)) :: nil)) (10 / 1).
Proof. apply (A21_rio_fin _ (2489100355631953 / 1125899906842624)); [reflexivity | apply (A21_q_lo 2489100355631953 1125899906842624 10 1); [vm_compute; reflexivity | unfold fr, ctol, A21_lo, A21_c, A21_e; interval with (i_prec 80)]]. Qed.
Lemma d_A21_1017u : close ctol (3753835146941613 / 9007199254740992) (volts_A21 (2721319471446511 / 35184372088832)).
Proof. apply (A21_q_volts_mid 2721319471446511 35184372088832 3753835146941613 9007199254740992); [vm_compute; reflexivity | unfold fr, close, ctol, A21_lo, A21_hi, A21_c, A21_e; interval with (i_prec 80)]. Qed.
Lemma d_A21_1030u : close ctol (8541233933234127 / 18014398509481984) (volts_A21 (580824098356285 / 8796093022208)).
Proof. apply (A21_q_volts_mid 580824098356285 8796093022208 8541233933234127 18014398509481984); [vm_compute; reflexivity | unfold fr, close, ctol, A21_lo, A21_hi, A21_c, A21_e; interval with (i_prec 80)]. Qed.
Lemma d_A21_1043u : close ctol (5882245853576235 / 9007199254740992) (volts_A21 (6276046922050143 / 140737488355328)).
Proof. apply (A21_q_volts_mid 6276046922050143 140737488355328 5882245853576235 9007199254740992); [vm_compute; reflexivity | unfold fr, close, ctol, A21_lo, A21_hi, A21_c, A21_e; interval with (i_prec 80)]. Qed.
Lemma d_A21_1056u : close ctol (2489100355631953 / 1125899906842624) (volts_A21 (1534425892091985 / 281474976710656)).
Proof. apply (A21_q_volts_lo 1534425892091985 281474976710656 2489100355631953 1125899906842624); [vm_compute; reflexivity | unfold fr, close, ctol, A21_lo, A21_hi, A21_c, A21_e; interval with (i_prec 80)]. Qed.
Lemma d_A21_1068r : rio_reads A21_c A21_e A21_lo A21_hi floor_volts ctol (Build_rio (Fin (2055004433440893 / 4503599627370496)) (Fin (337 / 1024)) (Fin (0 / 1)) PInf (Fin (6123 / 512)) false true true ((Fin (343 / 512)) :: (Fin (255 / 256)) :: (Fin (1249 / 512)) :: (Fin (87211 / 1024)) :: (Fin (8539 / 1024)) :: (Fin (3989 / 128)) :: nil)) (2435089328423343 / 35184372088832).
Proof. apply (A21_rio_fin _ (2055004433440893 / 4503599627370496)); [reflexivity | apply (A21_q_mid 2055004433440893 4503599627370496 2435089328423343 35184372088832); [vm_compute; reflexivity | unfold fr, close, ctol, A21_c, A21_e; interval with (i_prec 80)]]. Qed.
Lemma d_A21_1081u : close ctol (2442501501994823 / 4503599627370496) (volts_A21 (56 / 1)).
Proof. apply (A21_q_volts_mid 56 1 2442501501994823 4503599627370496); [vm_compute; reflexivity | unfold fr, close, ctol, A21_lo, A21_hi, A21_c, A21_e; interval with (i_prec 80)]. Qed.
Lemma d_A21_1094u : close ctol (5612687316494577 / 9007199254740992) (volts_A21 (3323782947712311 / 70368744177664)).
Proof. apply (A21_q_volts_mid 3323782947712311 70368744177664 5612687316494577 9007199254740992); [vm_compute; reflexivity | unfold fr, close, ctol, A21_lo, A21_hi, A21_c, A21_e; interval with (i_prec 80)]. Qed.
Lemma d_A21_1107u : close ctol (2489100355631953 / 1125899906842624) (volts_A21 (2487088007473649 / 1125899906842624)).
Proof. apply (A21_q_volts_lo 2487088007473649 1125899906842624 2489100355631953 1125899906842624); [vm_compute; reflexivity | unfold fr, close, ctol, A21_lo, A21_hi, A21_c, A21_e; interval with (i_prec 80)]. Qed.
Lemma d_A21_1120u : close ctol (7093219139989601 / 9007199254740992) (volts_A21 (4988984222850639 / 140737488355328)).
Proof. apply (A21_q_volts_mid 4988984222850639 140737488355328 7093219139989601 9007199254740992); [vm_compute; reflexivity | unfold fr, close, ctol, A21_lo, A21_hi, A21_c, A21_e; interval with (i_prec 80)]. Qed.
Lemma d_A21_1132r : rio_reads A21_c A21_e A21_lo A21_hi floor_volts ctol (Build_rio (Fin (6333012556225455 / 9007199254740992)) (Fin (13537 / 1024)) (Fin (3715469692580659 / 1125899906842624)) (Fin (3659 / 256)) (Fin (2691 / 512)) false true true ((Fin (2351 / 1024)) :: (Fin (101 / 512)) :: (Fin (125 / 512)) :: (Fin (72449 / 1024)) :: (Fin (7839 / 1024)) :: (Fin (87789 / 1024)) :: nil)) (2866433213812957 / 70368744177664).
Proof. apply (A21_rio_fin _ (6333012556225455 / 9007199254740992)); [reflexivity | apply (A21_q_mid 6333012556225455 9007199254740992 2866433213812957 70368744177664); [vm_compute; reflexivity | unfold fr, close, ctol, A21_c, A21_e; interval with (i_prec 80)]]. Qed.
Lemma d_A21_1145u : close ctol (7562156008408571 / 18014398509481984) (volts_A21 (5394601197157433 / 70368744177664)).
Proof. apply (A21_q_volts_mid 5394601197157433 70368744177664 7562156008408571 18014398509481984); [vm_compute; reflexivity | unfold fr, close, ctol, A21_lo, A21_hi, A21_c, A21_e; interval with (i_prec 80)]. Qed.
Lemma d_A21_1158u : close ctol (1908929192043863 / 2251799813685248) (volts_A21 (4557978193980125 / 140737488355328)).
Proof. apply (A21_q_volts_mid 4557978193980125 140737488355328 1908929192043863 2251799813685248); [vm_compute; reflexivity | unfold fr, close, ctol, A21_lo, A21_hi, A21_c, A21_e; interval with (i_prec 80)]. Qed.
Lemma d_A21_1171u : close ctol (7921135120824955 / 18014398509481984) (volts_A21 (5096423517877405 / 70368744177664)).
Proof. apply (A21_q_volts_mid 5096423517877405 70368744177664 7921135120824955 18014398509481984); [vm_compute; reflexivity | unfold fr, close, ctol, A21_lo, A21_hi, A21_c, A21_e; interval with (i_prec 80)]. Qed.
Lemma d_A21_1184u : close ctol (4628925143699841 / 4503599627370496) (volts_A21 (3599189084707059 / 140737488355328)).
Proof. apply (A21_q_volts_mid 3599189084707059 140737488355328 4628925143699841 4503599627370496); [vm_compute; reflexivity | unfold fr, close, ctol, A21_lo, A21_hi, A21_c, A21_e; interval with (i_prec 80)]. Qed.
Lemma d_A21_1196r : rio_reads A21_c A21_e A21_lo A21_hi floor_volts ctol (Build_rio (Fin (6687983813866131 / 9007199254740992)) (Fin (1255 / 256)) (Fin (1677 / 512)) (Fin (5207 / 1024)) (Fin (12 / 1)) true true true ((Fin (3 / 256)) :: (Fin (1319 / 1024)) :: (Fin (81 / 512)) :: (Fin (104635 / 1024)) :: (Fin (1569 / 256)) :: (Fin (2885 / 1024)) :: nil)) (2681045496131325 / 70368744177664).
Proof. apply (A21_rio_fin _ (6687983813866131 / 9007199254740992)); [reflexivity | apply (A21_q_mid 6687983813866131 9007199254740992 2681045496131325 70368744177664); [vm_compute; reflexivity | unfold fr, close, ctol, A21_c, A21_e; interval with (i_prec 80)]]. Qed.
Lemma d_A21_1209u : close ctol (7379920064144953 / 4503599627370496) (volts_A21 (8126658222210809 / 562949953421312)).
Proof. apply (A21_q_volts_mid 8126658222210809 562949953421312 7379920064144953 4503599627370496); [vm_compute; reflexivity | unfold fr, close, ctol, A21_lo, A21_hi, A21_c, A21_e; interval with (i_prec 80)]. Qed.
Lemma d_A21_1222u : close ctol (2489100355631953 / 1125899906842624) (volts_A21 (2681313927632733 / 281474976710656)).
Proof. apply (A21_q_volts_lo 2681313927632733 281474976710656 2489100355631953 1125899906842624); [vm_compute; reflexivity | unfold fr, close, ctol, A21_lo, A21_hi, A21_c, A21_e; interval with (i_prec 80)]. Qed.
Lemma d_A21_1235u : close ctol (5606889505454647 / 9007199254740992) (volts_A21 (3327997155203299 / 70368744177664)).
Proof. apply (A21_q_volts_mid 3327997155203299 70368744177664 5606889505454647 9007199254740992); [vm_compute; reflexivity | unfold fr, close, ctol, A21_lo, A21_hi, A21_c, A21_e; interval with (i_prec 80)]. Qed.
Lemma d_A21_1248u : close ctol (4730660576532311 / 9007199254740992) (volts_A21 (8197699569110929 / 140737488355328)).
Proof. apply (A21_q_volts_mid 8197699569110929 140737488355328 4730660576532311 9007199254740992); [vm_compute; reflexivity | unfold fr, close, ctol, A21_lo, A21_hi, A21_c, A21_e; interval with (i_prec 80)]. Qed.
Lemma d_A21_1260r : rio_reads A21_c A21_e A21_lo A21_hi floor_volts ctol (Build_rio (Fin (3462895368268375 / 4503599627370496)) (Fin (0 / 1)) (Fin (1601 / 512)) (Fin (1 / 202402253307310618352495346718917307049556649764142118356901358027430339567995346891960383701437124495187077864316811911389808737385793476867013399940738509921517424276566361364466907742093216341239767678472745068562007483424692698618103355649159556340810056512358769552333414615230502532186327508646006263307707741093494784)) (Fin (1435 / 128)) false true true ((Fin (2849 / 1024)) :: (Fin (1047 / 1024)) :: (Fin (459 / 256)) :: (Fin (61107 / 512)) :: (Fin (4273 / 1024)) :: (Fin (4515 / 512)) :: nil)) (2568624814084477 / 70368744177664).
Proof. apply (A21_rio_fin _ (3462895368268375 / 4503599627370496)); [reflexivity | apply (A21_q_mid 3462895368268375 4503599627370496 2568624814084477 70368744177664); [vm_compute; reflexivity | unfold fr, close, ctol, A21_c, A21_e; interval with (i_prec 80)]]. Qed.
Lemma d_A21_1273u : close ctol (3404545012082381 / 4503599627370496) (volts_A21 (327837720317323 / 8796093022208)).
Proof. apply (A21_q_volts_mid 327837720317323 8796093022208 3404545012082381 4503599627370496); [vm_compute; reflexivity | unfold fr, close, ctol, A21_lo, A21_hi, A21_c, A21_e; interval with (i_prec 80)]. Qed.
Lemma d_A21_1286u : close ctol (75099777045793 / 140737488355328) (volts_A21 (8039637752914439 / 140737488355328)).
Proof. apply (A21_q_volts_mid 8039637752914439 140737488355328 75099777045793 140737488355328); [vm_compute; reflexivity | unfold fr, close, ctol, A21_lo, A21_hi, A21_c, A21_e; interval with (i_prec 80)]. Qed.
Lemma d_A21_1299u : close ctol (2489100355631953 / 1125899906842624) (volts_A21 (5552451936597621 / 4503599627370496)).
Proof. apply (A21_q_volts_lo 5552451936597621 4503599627370496 2489100355631953 1125899906842624); [vm_compute; reflexivity | unfold fr, close, ctol, A21_lo, A21_hi, A21_c, A21_e; interval with (i_prec 80)]. Qed.
Lemma d_A21_1312u : close ctol (821139460438941 / 562949953421312) (volts_A21 (585814171385853 / 35184372088832)).
Proof. apply (A21_q_volts_mid 585814171385853 35184372088832 821139460438941 562949953421312); [vm_compute; reflexivity | unfold fr, close, ctol, A21_lo, A21_hi, A21_c, A21_e; interval with (i_prec 80)]. Qed.
Lemma d_A21_1324r : rio_reads A21_c A21_e A21_lo A21_hi floor_volts ctol (Build_rio (Fin (5355577406161715 / 9007199254740992)) (Fin (5 / 1)) (Fin (827 / 256)) (Fin (5489 / 1024)) (Fin ((-1) / 1)) false true true ((Fin (1601 / 1024)) :: (Fin (355 / 1024)) :: (Fin (1545 / 1024)) :: (Fin (121151 / 1024)) :: (Fin (2769 / 512)) :: (Fin (23469 / 512)) :: nil)) (7040922862624055 / 140737488355328).
Proof. apply (A21_rio_fin _ (5355577406161715 / 9007199254740992)); [reflexivity | apply (A21_q_mid 5355577406161715 9007199254740992 7040922862624055 140737488355328); [vm_compute; reflexivity | unfold fr, close, ctol, A21_c, A21_e; interval with (i_prec 80)]]. Qed.
Lemma r_A41_853 : rio_reads A41_c A41_e A41_lo A41_hi floor_volts ctol (Build_rio (Fin (357539307115111 / 140737488355328)) (Fin (0 / 1)) (Fin (0 / 1)) (Fin (0 / 1)) (Fin (2476979795053773 / 562949953421312)) false false false ((Fin (0 / 1)) :: (Fin (0 / 1)) :: (Fin (0 / 1)) :: (Fin (0 / 1)) :: (Fin (27 / 4)) :: (Fin (45 / 1)) :: nil)) (2892326386649999 / 562949953421312).
Proof. apply (A41_rio_fin _ (357539307115111 / 140737488355328)); [reflexivity | apply (A41_q_mid 357539307115111 140737488355328 2892326386649999 562949953421312); [vm_compute; reflexivity | unfold fr, close, ctol, A41_c, A41_e; interval with (i_prec 80)]]. Qed.
Lemma r_A41_884 : rio_reads A41_c A41_e A41_lo A41_hi floor_volts ctol (Build_rio (Fin (179769313486231570814527423731704356798070567525844996598917476803157260780028538760589558632766878171540458953514382464234321326889464182768467546703537516986049910576551282076245490090389328944075868508455133942304583236903222948165808559332123348274797826204144723168738177180919299881250404026184124858368 / 1)) (Fin (5 / 1)) (Fin (3715469692580659 / 1125899906842624)) (Fin (6 / 1)) (Fin (100000000000000001097906362944045541740492309677311846336810682903157585404911491537163328978494688899061249669721172515611590283743140088328307009198146046031271664502933027185697489699588559043338384466165001178426897626212945177628091195786707458122783970171784415105291802893207873272974885715430223118336 / 1)) true true true ((Fin (0 / 1)) :: (Fin (0 / 1)) :: (Fin (0 / 1)) :: (Fin (0 / 1)) :: (Fin (27 / 4)) :: (Fin (45 / 1)) :: nil)) (9 / 2).
Proof. apply (A41_rio_fin _ (179769313486231570814527423731704356798070567525844996598917476803157260780028538760589558632766878171540458953514382464234321326889464182768467546703537516986049910576551282076245490090389328944075868508455133942304583236903222948165808559332123348274797826204144723168738177180919299881250404026184124858368 / 1)); [reflexivity | apply (A41_q_lo 179769313486231570814527423731704356798070567525844996598917476803157260780028538760589558632766878171540458953514382464234321326889464182768467546703537516986049910576551282076245490090389328944075868508455133942304583236903222948165808559332123348274797826204144723168738177180919299881250404026184124858368 1 9 2); [vm_compute; reflexivity | unfold fr, ctol, A41_lo, A41_c, A41_e; interval with (i_prec 80)]]. Qed.
Lemma r_A41_902 : rio_reads A41_c A41_e A41_lo A41_hi floor_volts ctol (Build_rio (Fin (735 / 2048)) (Fin (5 / 1)) (Fin (3715469692580659 / 1125899906842624)) (Fin (6 / 1)) (Fin (12 / 1)) true true true ((Fin (1 / 2)) :: (Fin (0 / 1)) :: (Fin (0 / 1)) :: (Fin (0 / 1)) :: (Fin (27 / 4)) :: (Fin (45 / 1)) :: nil)) (35 / 1).
Proof. apply (A41_rio_fin _ (735 / 2048)); [reflexivity | apply (A41_q_hi 735 2048 35 1); [vm_compute; reflexivity | unfold fr, ctol, A41_hi, A41_c, A41_e; interval with (i_prec 80)]]. Qed.
Lemma r_A41_918 : rio_reads A41_c A41_e A41_lo A41_hi floor_volts ctol (Build_rio (Fin (5 / 64)) (Fin (4495 / 1024)) (Fin (1573 / 512)) (Fin (415 / 64)) (Fin (10871 / 1024)) true true true ((Fin (1207 / 512)) :: (Fin (105 / 128)) :: (Fin (2169 / 1024)) :: (Fin (172373 / 1024)) :: (Fin (3701 / 1024)) :: (Fin ((-43) / 512)) :: nil)) (35 / 1).
Proof. apply (A41_rio_fin _ (5 / 64)); [reflexivity | apply (A41_q_hi 5 64 35 1); [vm_compute; reflexivity | unfold fr, ctol, A41_hi, A41_c, A41_e; interval with (i_prec 80)]]. Qed.
Lemma r_A41_934 : rio_reads A41_c A41_e A41_lo A41_hi floor_volts ctol (Build_rio (Fin (25 / 64)) (Fin (4275 / 1024)) (Fin (3423 / 1024)) (Fin (5931 / 1024)) (Fin (2749 / 256)) true false true ((Fin (457 / 1024)) :: (Fin (955 / 1024)) :: (Fin (677 / 512)) :: (Fin (39661 / 256)) :: (Fin (8429 / 1024)) :: (Fin (33493 / 1024)) :: nil)) (2275096205977705 / 70368744177664).
Proof. apply (A41_rio_fin _ (25 / 64)); [reflexivity | apply (A41_q_mid 25 64 2275096205977705 70368744177664); [vm_compute; reflexivity | unfold fr, close, ctol, A41_c, A41_e; interval with (i_prec 80)]]. Qed.
Lemma r_A41_950 : rio_reads A41_c A41_e A41_lo A41_hi floor_volts ctol (Build_rio (Fin (45 / 64)) (Fin (2727 / 512)) (Fin (21 / 4)) (Fin (6 / 1)) (Fin (1875 / 1024)) true true true ((Fin (2913 / 1024)) :: (Fin (1885 / 1024)) :: (Fin (683 / 512)) :: (Fin (202853 / 1024)) :: (Fin (2931 / 512)) :: (Fin (44321 / 512)) :: nil)) (79817859046591 / 4398046511104).
Proof. apply (A41_rio_fin _ (45 / 64)); [reflexivity | apply (A41_q_mid 45 64 79817859046591 4398046511104); [vm_compute; reflexivity | unfold fr, close, ctol, A41_c, A41_e; interval with (i_prec 80)]]. Qed.
Lemma r_A41_966 : rio_reads A41_c A41_e A41_lo A41_hi floor_volts ctol (Build_rio (Fin (65 / 64)) (Fin (583 / 128)) (Fin (1619 / 128)) (Fin (6 / 1)) (Fin (1709 / 512)) false true true ((Fin (2771 / 1024)) :: (Fin (91 / 1024)) :: (Fin (991 / 512)) :: (Fin (87419 / 512)) :: (Fin (1717 / 256)) :: (Fin ((-3927) / 256)) :: nil)) (1779753865289775 / 140737488355328).
Proof. apply (A41_rio_fin _ (65 / 64)); [reflexivity | apply (A41_q_mid 65 64 1779753865289775 140737488355328); [vm_compute; reflexivity | unfold fr, close, ctol, A41_c, A41_e; interval with (i_prec 80)]]. Qed.
Lemma r_A41_982 : rio_reads A41_c A41_e A41_lo A41_hi floor_volts ctol (Build_rio (Fin (85 / 64)) (Fin (4551 / 1024)) (Fin (3677 / 1024)) (Fin (1 / 1)) (Fin (6931 / 1024)) true true false ((Fin (615 / 1024)) :: (Fin (597 / 1024)) :: (Fin (611 / 512)) :: (Fin (8831 / 256)) :: (Fin (8041 / 1024)) :: (Fin (28691 / 512)) :: nil)) (2734858552387017 / 281474976710656).
Proof. apply (A41_rio_fin _ (85 / 64)); [reflexivity | apply (A41_q_mid 85 64 2734858552387017 281474976710656); [vm_compute; reflexivity | unfold fr, close, ctol, A41_c, A41_e; interval with (i_prec 80)]]. Qed.
Lemma r_A41_998 : rio_reads A41_c A41_e A41_lo A41_hi floor_volts ctol (Build_rio (Fin (105 / 64)) (Fin (5 / 1)) (Fin (12373 / 1024)) (Fin (6 / 1)) (Fin (12 / 1)) false true false ((Fin (995 / 1024)) :: (Fin (129 / 512)) :: (Fin (1145 / 512)) :: (Fin (99533 / 512)) :: (Fin (7731 / 1024)) :: (Fin (9095 / 512)) :: nil)) (4444364298982735 / 562949953421312).
Proof. apply (A41_rio_fin _ (105 / 64)); [reflexivity | apply (A41_q_mid 105 64 4444364298982735 562949953421312); [vm_compute; reflexivity | unfold fr, close, ctol, A41_c, A41_e; interval with (i_prec 80)]]. Qed.
Lemma r_A41_1014 : rio_reads A41_c A41_e A41_lo A41_hi floor_volts ctol (Build_rio (Fin (125 / 64)) (Fin (2307 / 512)) (Fin (3715469692580659 / 1125899906842624)) (Fin (5843 / 1024)) (Fin (11367 / 1024)) true true false ((Fin (1121 / 512)) :: (Fin (757 / 512)) :: (Fin (593 / 256)) :: (Fin (110027 / 1024)) :: (Fin (1301 / 256)) :: (Fin (19181 / 1024)) :: nil)) (3744739579455683 / 562949953421312).
Proof. apply (A41_rio_fin _ (125 / 64)); [reflexivity | apply (A41_q_mid 125 64 3744739579455683 562949953421312); [vm_compute; reflexivity | unfold fr, close, ctol, A41_c, A41_e; interval with (i_prec 80)]]. Qed.
Lemma r_A41_1030 : rio_reads A41_c A41_e A41_lo A41_hi floor_volts ctol (Build_rio (Fin (145 / 64)) (Fin (5 / 1)) (Fin (1529 / 512)) (Fin (2805 / 512)) (Fin (12 / 1)) true true false ((Fin (79 / 512)) :: (Fin (43 / 128)) :: (Fin (71 / 64)) :: (Fin (174745 / 1024)) :: (Fin (3559 / 1024)) :: (Fin (38143 / 1024)) :: nil)) (6473335079139105 / 1125899906842624).
Proof. apply (A41_rio_fin _ (145 / 64)); [reflexivity | apply (A41_q_mid 145 64 6473335079139105 1125899906842624); [vm_compute; reflexivity | unfold fr, close, ctol, A41_c, A41_e; interval with (i_prec 80)]]. Qed.
Lemma r_A41_1046 : rio_reads A41_c A41_e A41_lo A41_hi floor_volts ctol (Build_rio (Fin (165 / 64)) (Fin (100000000000000001097906362944045541740492309677311846336810682903157585404911491537163328978494688899061249669721172515611590283743140088328307009198146046031271664502933027185697489699588559043338384466165001178426897626212945177628091195786707458122783970171784415105291802893207873272974885715430223118336 / 1)) (Fin (7383 / 1024)) (Fin (6113 / 1024)) (Fin (1459 / 128)) true true true ((Fin (7 / 512)) :: (Fin (2031 / 1024)) :: (Fin (1277 / 512)) :: (Fin (58185 / 1024)) :: (Fin (6687 / 1024)) :: (Fin (28207 / 512)) :: nil)) (356352495055793 / 70368744177664).
Proof. apply (A41_rio_fin _ (165 / 64)); [reflexivity | apply (A41_q_mid 165 64 356352495055793 70368744177664); [vm_compute; reflexivity | unfold fr, close, ctol, A41_c, A41_e; interval with (i_prec 80)]]. Qed.
Lemma r_A41_1062 : rio_reads A41_c A41_e A41_lo A41_hi floor_volts ctol (Build_rio (Fin (185 / 64)) PInf (Fin (0 / 1)) (Fin ((-1) / 1)) (Fin (12195 / 1024)) true false true ((Fin (283 / 512)) :: (Fin (885 / 512)) :: (Fin (1479 / 1024)) :: (Fin (77791 / 1024)) :: (Fin (8559 / 1024)) :: (Fin ((-1391) / 512)) :: nil)) (2547748248670575 / 562949953421312).
Proof. apply (A41_rio_fin _ (185 / 64)); [reflexivity | apply (A41_q_mid 185 64 2547748248670575 562949953421312); [vm_compute; reflexivity | unfold fr, close, ctol, A41_c, A41_e; interval with (i_prec 80)]]. Qed.
Lemma r_A41_1078 : rio_reads A41_c A41_e A41_lo A41_hi floor_volts ctol (Build_rio (Fin (825 / 256)) (Fin (4479 / 1024)) (Fin (2877 / 1024)) (Fin (1141 / 128)) (Fin (12 / 1)) true true false ((Fin (1533 / 1024)) :: (Fin (863 / 1024)) :: (Fin (289 / 256)) :: (Fin (53125 / 512)) :: (Fin (1183 / 256)) :: (Fin (8169 / 512)) :: nil)) (9 / 2).
Proof. apply (A41_rio_fin _ (825 / 256)); [reflexivity | apply (A41_q_lo 825 256 9 2); [vm_compute; reflexivity | unfold fr, ctol, A41_lo, A41_c, A41_e; interval with (i_prec 80)]]. Qed.
Lemma r_A41_1094 : rio_reads A41_c A41_e A41_lo A41_hi floor_volts ctol (Build_rio (Fin (905 / 256)) (Fin (5231 / 1024)) (Fin (9597 / 1024)) (Fin (1325 / 256)) (Fin (717 / 64)) true true false ((Fin (83 / 128)) :: (Fin (763 / 1024)) :: (Fin (1645 / 1024)) :: (Fin (49893 / 512)) :: (Fin (6771 / 1024)) :: (Fin (6159 / 64)) :: nil)) (9 / 2).
Proof. apply (A41_rio_fin _ (905 / 256)); [reflexivity | apply (A41_q_lo 905 256 9 2); [vm_compute; reflexivity | unfold fr, ctol, A41_lo, A41_c, A41_e; interval with (i_prec 80)]]. Qed.
Lemma r_A41_1110 : rio_reads A41_c A41_e A41_lo A41_hi floor_volts ctol (Build_rio (Fin (985 / 256)) (Fin (1 / 1)) (Fin (0 / 1)) (Fin (1573 / 256)) (Fin (13153 / 1024)) true false true ((Fin (2285 / 1024)) :: (Fin (169 / 512)) :: (Fin (2515 / 1024)) :: (Fin (34383 / 256)) :: (Fin (6021 / 1024)) :: (Fin (49141 / 1024)) :: nil)) (9 / 2).
Proof. apply (A41_rio_fin _ (985 / 256)); [reflexivity | apply (A41_q_lo 985 256 9 2); [vm_compute; reflexivity | unfold fr, ctol, A41_lo, A41_c, A41_e; interval with (i_prec 80)]]. Qed.
Lemma r_A41_1126 : rio_reads A41_c A41_e A41_lo A41_hi floor_volts ctol (Build_rio (Fin (1065 / 256)) (Fin (5 / 1)) (Fin (3431 / 1024)) (Fin (7327 / 512)) (Fin ((-1) / 1)) true true true ((Fin (375 / 1024)) :: (Fin (1017 / 1024)) :: (Fin (2925 / 1024)) :: (Fin (9257 / 64)) :: (Fin (3489 / 512)) :: (Fin (6057 / 512)) :: nil)) (9 / 2).
Proof. apply (A41_rio_fin _ (1065 / 256)); [reflexivity | apply (A41_q_lo 1065 256 9 2); [vm_compute; reflexivity | unfold fr, ctol, A41_lo, A41_c, A41_e; interval with (i_prec 80)]]. Qed.
Lemma r_A41_1142 : rio_reads A41_c A41_e A41_lo A41_hi floor_volts ctol (Build_rio (Fin (1145 / 256)) (Fin (569 / 128)) (Fin (1751 / 512)) (Fin (100000000000000001097906362944045541740492309677311846336810682903157585404911491537163328978494688899061249669721172515611590283743140088328307009198146046031271664502933027185697489699588559043338384466165001178426897626212945177628091195786707458122783970171784415105291802893207873272974885715430223118336 / 1)) (Fin (1 / 1)) true true true ((Fin (733 / 256)) :: (Fin (575 / 512)) :: (Fin (1437 / 1024)) :: (Fin (9095 / 256)) :: (Fin (631 / 128)) :: (Fin (35787 / 512)) :: nil)) (9 / 2).
Proof. apply (A41_rio_fin _ (1145 / 256)); [reflexivity | apply (A41_q_lo 1145 256 9 2); [vm_compute; reflexivity | unfold fr, ctol, A41_lo, A41_c, A41_e; interval with (i_prec 80)]]. Qed.
Lemma r_A41_1158 : rio_reads A41_c A41_e A41_lo A41_hi floor_volts ctol (Build_rio (Fin (1225 / 256)) (Fin (2443 / 512)) (Fin (1745 / 512)) (Fin (7957 / 1024)) (Fin (13245 / 1024)) true true false ((Fin (129 / 256)) :: (Fin (1065 / 1024)) :: (Fin (301 / 512)) :: (Fin (5829 / 128)) :: (Fin (3495 / 512)) :: (Fin (71109 / 1024)) :: nil)) (9 / 2).
Proof. apply (A41_rio_fin _ (1225 / 256)); [reflexivity | apply (A41_q_lo 1225 256 9 2); [vm_compute; reflexivity | unfold fr, ctol, A41_lo, A41_c, A41_e; interval with (i_prec 80)]]. Qed.
Lemma r_A41_1174 : rio_reads A41_c A41_e A41_lo A41_hi floor_volts ctol (Build_rio (Fin (4127404798735269 / 2251799813685248)) (Fin (447 / 64)) (Fin (1805 / 512)) (Fin (5513 / 1024)) (Fin ((-12) / 1)) true true true ((Fin (2295 / 1024)) :: (Fin (163 / 128)) :: (Fin (1503 / 1024)) :: (Fin (41211 / 256)) :: (Fin (5119 / 1024)) :: (Fin (36529 / 512)) :: nil)) (1992915669836403 / 281474976710656).
Proof. apply (A41_rio_fin _ (4127404798735269 / 2251799813685248)); [reflexivity | apply (A41_q_mid 4127404798735269 2251799813685248 1992915669836403 281474976710656); [vm_compute; reflexivity | unfold fr, close, ctol, A41_c, A41_e; interval with (i_prec 80)]]. Qed.
Lemma r_A41_1190 : rio_reads A41_c A41_e A41_lo A41_hi floor_volts ctol (Build_rio (Fin (4437873488797061 / 2251799813685248)) (Fin (5 / 1)) (Fin (3041 / 1024)) (Fin (1615 / 256)) (Fin (5902958103587057 / 590295810358705651712)) false true true ((Fin (591 / 1024)) :: (Fin (61 / 64)) :: (Fin (2785 / 1024)) :: (Fin (19115 / 256)) :: (Fin (447 / 64)) :: (Fin (33643 / 512)) :: nil)) (927930470009249 / 140737488355328).
Proof. apply (A41_rio_fin _ (4437873488797061 / 2251799813685248)); [reflexivity | apply (A41_q_mid 4437873488797061 2251799813685248 927930470009249 140737488355328); [vm_compute; reflexivity | unfold fr, close, ctol, A41_c, A41_e; interval with (i_prec 80)]]. Qed.
Lemma r_A41_1206 : rio_reads A41_c A41_e A41_lo A41_hi floor_volts ctol (Build_rio (Fin (6045857761133585 / 9007199254740992)) (Fin (5275 / 1024)) (Fin (1809 / 512)) (Fin (1427 / 256)) (Fin (10957 / 1024)) true true true ((Fin (1509 / 512)) :: (Fin (175 / 512)) :: (Fin (1849 / 1024)) :: (Fin (42465 / 512)) :: (Fin (943 / 128)) :: (Fin ((-709) / 256)) :: nil)) (5346745835830547 / 281474976710656).
Proof. apply (A41_rio_fin _ (6045857761133585 / 9007199254740992)); [reflexivity | apply (A41_q_mid 6045857761133585 9007199254740992 5346745835830547 281474976710656); [vm_compute; reflexivity | unfold fr, close, ctol, A41_c, A41_e; interval with (i_prec 80)]]. Qed.
Lemma r_A41_1222 : rio_reads A41_c A41_e A41_lo A41_hi floor_volts ctol (Build_rio (Fin (60442272176291 / 35184372088832)) (Fin (2705 / 256)) (Fin (100000000000000001097906362944045541740492309677311846336810682903157585404911491537163328978494688899061249669721172515611590283743140088328307009198146046031271664502933027185697489699588559043338384466165001178426897626212945177628091195786707458122783970171784415105291802893207873272974885715430223118336 / 1)) (Fin (1057 / 128)) (Fin (4417 / 512)) true false true ((Fin (373 / 256)) :: (Fin (35 / 512)) :: (Fin (1611 / 1024)) :: (Fin (31811 / 1024)) :: (Fin (2665 / 512)) :: (Fin (65237 / 1024)) :: nil)) (8495905455334089 / 1125899906842624).
Proof. apply (A41_rio_fin _ (60442272176291 / 35184372088832)); [reflexivity | apply (A41_q_mid 60442272176291 35184372088832 8495905455334089 1125899906842624); [vm_compute; reflexivity | unfold fr, close, ctol, A41_c, A41_e; interval with (i_prec 80)]]. Qed.
Lemma r_A41_1241 : rio_reads A41_c A41_e A41_lo A41_hi floor_volts ctol (Build_rio (Fin (5493042421903553 / 9007199254740992)) (Fin (1027 / 256)) (Fin (0 / 1)) (Fin ((-12) / 1)) (Fin (9979 / 1024)) false true true ((Fin (591 / 256)) :: (Fin (1557 / 1024)) :: (Fin (757 / 1024)) :: (Fin (3207 / 512)) :: (Fin (6497 / 1024)) :: (Fin (29469 / 1024)) :: nil)) (5874914638837847 / 281474976710656).
Proof. apply (A41_rio_fin _ (5493042421903553 / 9007199254740992)); [reflexivity | apply (A41_q_mid 5493042421903553 9007199254740992 5874914638837847 281474976710656); [vm_compute; reflexivity | unfold fr, close, ctol, A41_c, A41_e; interval with (i_prec 80)]]. Qed.
Lemma r_A41_1262 : rio_reads A41_c A41_e A41_lo A41_hi floor_volts ctol (Build_rio (Fin (5092553751497189 / 1125899906842624)) (Fin (0 / 1)) (Fin (3715469692580659 / 1125899906842624)) (Fin (6 / 1)) (Fin (5225 / 512)) true false true ((Fin (891 / 512)) :: (Fin (1597 / 1024)) :: (Fin (1171 / 512)) :: (Fin (97351 / 1024)) :: (Fin (1429 / 256)) :: (Fin (1887 / 256)) :: nil)) (9 / 2).
Proof. apply (A41_rio_fin _ (5092553751497189 / 1125899906842624)); [reflexivity | apply (A41_q_lo 5092553751497189 1125899906842624 9 2); [vm_compute; reflexivity | unfold fr, ctol, A41_lo, A41_c, A41_e; interval with (i_prec 80)]]. Qed.
Lemma d_A41_1339u : close ctol (5881157630324709 / 2251799813685248) (volts_A41 (5 / 1)).
Proof. apply (A41_q_volts_mid 5 1 5881157630324709 2251799813685248); [vm_compute; reflexivity | unfold fr, close, ctol, A41_lo, A41_hi, A41_c, A41_e; interval with (i_prec 80)]. Qed.
Lemma d_A41_1347u : close ctol (6491044311201869 / 18014398509481984) (volts_A41 (80 / 1)).
Proof. apply (A41_q_volts_hi 80 1 6491044311201869 18014398509481984); [vm_compute; reflexivity | unfold fr, close, ctol, A41_lo, A41_hi, A41_c, A41_e; interval with (i_prec 80)]. Qed.
Lemma d_A41_1355u : close ctol (1636741441258383 / 562949953421312) (volts_A41 ((-5) / 1)).
Proof. apply (A41_q_volts_lo (-5) 1 1636741441258383 562949953421312); [vm_compute; reflexivity | unfold fr, close, ctol, A41_lo, A41_hi, A41_c, A41_e; interval with (i_prec 80)]. Qed.
Lemma d_A41_1363u : close ctol (4571203366206447 / 9007199254740992) (volts_A41 (25 / 1)).
Proof. apply (A41_q_volts_mid 25 1 4571203366206447 9007199254740992); [vm_compute; reflexivity | unfold fr, close, ctol, A41_lo, A41_hi, A41_c, A41_e; interval with (i_prec 80)]. Qed.
Lemma d_A41_1371u : close ctol (6491044311201869 / 18014398509481984) (volts_A41 (1000000000000000052504760255204420248704468581108159154915854115511802457988908195786371375080447864043704443832883878176942523235360430575644792184786706982848387200926575803737830233794788090059368953234970799945081119038967640880074652742780142494579258788820056842838115669472196386865459400540160 / 1)).
Proof. apply (A41_q_volts_hi 1000000000000000052504760255204420248704468581108159154915854115511802457988908195786371375080447864043704443832883878176942523235360430575644792184786706982848387200926575803737830233794788090059368953234970799945081119038967640880074652742780142494579258788820056842838115669472196386865459400540160 1 6491044311201869 18014398509481984); [vm_compute; reflexivity | unfold fr, close, ctol, A41_lo, A41_hi, A41_c, A41_e; interval with (i_prec 80)]. Qed.
Lemma d_A41_1379u : close ctol (3245522155600935 / 9007199254740992) (volts_A41 (4925812092436479 / 140737488355328)).
Proof. apply (A41_q_volts_mid 4925812092436479 140737488355328 3245522155600935 9007199254740992); [vm_compute; reflexivity | unfold fr, close, ctol, A41_lo, A41_hi, A41_c, A41_e; interval with (i_prec 80)]. Qed.
Lemma d_A41_1387u : close ctol (1636741441258383 / 562949953421312) (volts_A41 (4 / 1)).
Proof. apply (A41_q_volts_lo 4 1 1636741441258383 562949953421312); [vm_compute; reflexivity | unfold fr, close, ctol, A41_lo, A41_hi, A41_c, A41_e; interval with (i_prec 80)]. Qed.
Lemma d_A41_1398u : close ctol (2416592994747491 / 1125899906842624) (volts_A41 (3413257615572595 / 562949953421312)).
Proof. apply (A41_q_volts_mid 3413257615572595 562949953421312 2416592994747491 1125899906842624); [vm_compute; reflexivity | unfold fr, close, ctol, A41_lo, A41_hi, A41_c, A41_e; interval with (i_prec 80)]. Qed.
Lemma d_A41_1411u : close ctol (3330309904040563 / 9007199254740992) (volts_A41 (37520180709899 / 1099511627776)).
Proof. apply (A41_q_volts_mid 37520180709899 1099511627776 3330309904040563 9007199254740992); [vm_compute; reflexivity | unfold fr, close, ctol, A41_lo, A41_hi, A41_c, A41_e; interval with (i_prec 80)]. Qed.
Lemma d_A41_1424u : close ctol (2118717447495031 / 4503599627370496) (volts_A41 (7581022413876561 / 281474976710656)).
Proof. apply (A41_q_volts_mid 7581022413876561 281474976710656 2118717447495031 4503599627370496); [vm_compute; reflexivity | unfold fr, close, ctol, A41_lo, A41_hi, A41_c, A41_e; interval with (i_prec 80)]. Qed.
Lemma d_A41_1436r : rio_reads A41_c A41_e A41_lo A41_hi floor_volts ctol (Build_rio (Fin (7160817242669629 / 9007199254740992)) (Fin (5 / 1)) (Fin (3715469692580659 / 1125899906842624)) (Fin (6 / 1)) (Fin (12 / 1)) true true true ((Fin (0 / 1)) :: (Fin (0 / 1)) :: (Fin (0 / 1)) :: (Fin (0 / 1)) :: (Fin (27 / 4)) :: (Fin (45 / 1)) :: nil)) (4527709531490629 / 281474976710656).
Proof. apply (A41_rio_fin _ (7160817242669629 / 9007199254740992)); [reflexivity | apply (A41_q_mid 7160817242669629 9007199254740992 4527709531490629 281474976710656); [vm_compute; reflexivity | unfold fr, close, ctol, A41_c, A41_e; interval with (i_prec 80)]]. Qed.
Lemma d_A41_1449u : close ctol (3522931031617781 / 9007199254740992) (volts_A41 (2272245156244847 / 70368744177664)).
Proof. apply (A41_q_volts_mid 2272245156244847 70368744177664 3522931031617781 9007199254740992); [vm_compute; reflexivity | unfold fr, close, ctol, A41_lo, A41_hi, A41_c, A41_e; interval with (i_prec 80)]. Qed.
Lemma d_A41_1462u : close ctol (1636741441258383 / 562949953421312) (volts_A41 ((-3) / 1)).
Proof. apply (A41_q_volts_lo (-3) 1 1636741441258383 562949953421312); [vm_compute; reflexivity | unfold fr, close, ctol, A41_lo, A41_hi, A41_c, A41_e; interval with (i_prec 80)]. Qed.
Lemma d_A41_1475u : close ctol (2175436400649989 / 4503599627370496) (volts_A41 (7386800390257253 / 281474976710656)).
Proof. apply (A41_q_volts_mid 7386800390257253 281474976710656 2175436400649989 4503599627370496); [vm_compute; reflexivity | unfold fr, close, ctol, A41_lo, A41_hi, A41_c, A41_e; interval with (i_prec 80)]. Qed.
Lemma d_A41_1488u : close ctol (1636741441258383 / 562949953421312) (volts_A41 ((-3350060896262553) / 2251799813685248)).
Proof. apply (A41_q_volts_lo (-3350060896262553) 2251799813685248 1636741441258383 562949953421312); [vm_compute; reflexivity | unfold fr, close, ctol, A41_lo, A41_hi, A41_c, A41_e; interval with (i_prec 80)]. Qed.
Lemma d_A41_1500r : rio_reads A41_c A41_e A41_lo A41_hi floor_volts ctol (Build_rio (Fin (6017086703427073 / 4503599627370496)) (Fin (100000000000000001097906362944045541740492309677311846336810682903157585404911491537163328978494688899061249669721172515611590283743140088328307009198146046031271664502933027185697489699588559043338384466165001178426897626212945177628091195786707458122783970171784415105291802893207873272974885715430223118336 / 1)) (Fin (211 / 64)) (Fin (6 / 1)) (Fin (7881 / 1024)) true true true ((Fin (1579 / 1024)) :: (Fin (519 / 512)) :: (Fin (33 / 32)) :: (Fin (132161 / 1024)) :: (Fin (1441 / 256)) :: (Fin ((-1475) / 128)) :: nil)) (1359448848730839 / 140737488355328).
Proof. apply (A41_rio_fin _ (6017086703427073 / 4503599627370496)); [reflexivity | apply (A41_q_mid 6017086703427073 4503599627370496 1359448848730839 140737488355328); [vm_compute; reflexivity | unfold fr, close, ctol, A41_c, A41_e; interval with (i_prec 80)]]. Qed.
Lemma d_A41_1513u : close ctol (2186954758516079 / 4503599627370496) (volts_A41 (1837144548231049 / 70368744177664)).
Proof. apply (A41_q_volts_mid 1837144548231049 70368744177664 2186954758516079 4503599627370496); [vm_compute; reflexivity | unfold fr, close, ctol, A41_lo, A41_hi, A41_c, A41_e; interval with (i_prec 80)]. Qed.
Lemma d_A41_1526u : close ctol (6491044311201869 / 18014398509481984) (volts_A41 (3630552510363375 / 70368744177664)).
Proof. apply (A41_q_volts_hi 3630552510363375 70368744177664 6491044311201869 18014398509481984); [vm_compute; reflexivity | unfold fr, close, ctol, A41_lo, A41_hi, A41_c, A41_e; interval with (i_prec 80)]. Qed.
Lemma d_A41_1539u : close ctol (1324838913316913 / 2251799813685248) (volts_A41 (3042895717953077 / 140737488355328)).
Proof. apply (A41_q_volts_mid 3042895717953077 140737488355328 1324838913316913 2251799813685248); [vm_compute; reflexivity | unfold fr, close, ctol, A41_lo, A41_hi, A41_c, A41_e; interval with (i_prec 80)]. Qed.
Lemma d_A41_1552u : close ctol (4788678270227113 / 2251799813685248) (volts_A41 (1722210395014285 / 281474976710656)).
Proof. apply (A41_q_volts_mid 1722210395014285 281474976710656 4788678270227113 2251799813685248); [vm_compute; reflexivity | unfold fr, close, ctol, A41_lo, A41_hi, A41_c, A41_e; interval with (i_prec 80)]. Qed.
Lemma d_A41_1564r : rio_reads A41_c A41_e A41_lo A41_hi floor_volts ctol (Build_rio (Fin (242753730176247 / 562949953421312)) (Fin (5191 / 1024)) (Fin (1807 / 512)) (Fin (6 / 1)) (Fin (12221 / 1024)) true true true ((Fin (509 / 512)) :: (Fin (1077 / 1024)) :: (Fin (2089 / 1024)) :: (Fin (111793 / 1024)) :: (Fin (2193 / 512)) :: (Fin (697 / 32)) :: nil)) (8258084888947465 / 281474976710656).
Proof. apply (A41_rio_fin _ (242753730176247 / 562949953421312)); [reflexivity | apply (A41_q_mid 242753730176247 562949953421312 8258084888947465 281474976710656); [vm_compute; reflexivity | unfold fr, close, ctol, A41_c, A41_e; interval with (i_prec 80)]]. Qed.
Lemma d_A41_1577u : close ctol (2476370487797153 / 4503599627370496) (volts_A41 (6503954184973541 / 281474976710656)).
Proof. apply (A41_q_volts_mid 6503954184973541 281474976710656 2476370487797153 4503599627370496); [vm_compute; reflexivity | unfold fr, close, ctol, A41_lo, A41_hi, A41_c, A41_e; interval with (i_prec 80)]. Qed.
Lemma d_A41_1590u : close ctol (6491044311201869 / 18014398509481984) (volts_A41 (3669844770642389 / 35184372088832)).
Proof. apply (A41_q_volts_hi 3669844770642389 35184372088832 6491044311201869 18014398509481984); [vm_compute; reflexivity | unfold fr, close, ctol, A41_lo, A41_hi, A41_c, A41_e; interval with (i_prec 80)]. Qed.
Lemma d_A41_1603u : close ctol (3718549615934565 / 4503599627370496) (volts_A41 (4362414543522427 / 281474976710656)).
Proof. apply (A41_q_volts_mid 4362414543522427 281474976710656 3718549615934565 4503599627370496); [vm_compute; reflexivity | unfold fr, close, ctol, A41_lo, A41_hi, A41_c, A41_e; interval with (i_prec 80)]. Qed.
Lemma d_A41_1616u : close ctol (3528921542690893 / 9007199254740992) (volts_A41 (2268455743566697 / 70368744177664)).
Proof. apply (A41_q_volts_mid 2268455743566697 70368744177664 3528921542690893 9007199254740992); [vm_compute; reflexivity | unfold fr, close, ctol, A41_lo, A41_hi, A41_c, A41_e; interval with (i_prec 80)]. Qed.
Lemma d_A41_1628r : rio_reads A41_c A41_e A41_lo A41_hi floor_volts ctol (Build_rio (Fin (5902652415723613 / 9007199254740992)) (Fin (5 / 1)) (Fin (3715469692580659 / 1125899906842624)) (Fin (6 / 1)) (Fin (12 / 1)) true true true ((Fin (0 / 1)) :: (Fin (0 / 1)) :: (Fin (0 / 1)) :: (Fin (0 / 1)) :: (Fin (27 / 4)) :: (Fin (45 / 1)) :: nil)) (2737077099402283 / 140737488355328).
Proof. apply (A41_rio_fin _ (5902652415723613 / 9007199254740992)); [reflexivity | apply (A41_q_mid 5902652415723613 9007199254740992 2737077099402283 140737488355328); [vm_compute; reflexivity | unfold fr, close, ctol, A41_c, A41_e; interval with (i_prec 80)]]. Qed.
Lemma d_A41_1641u : close ctol (1681957876138437 / 4503599627370496) (volts_A41 (4755445114320613 / 140737488355328)).
Proof. apply (A41_q_volts_mid 4755445114320613 140737488355328 1681957876138437 4503599627370496); [vm_compute; reflexivity | unfold fr, close, ctol, A41_lo, A41_hi, A41_c, A41_e; interval with (i_prec 80)]. Qed.
Lemma d_A41_1654u : close ctol (2051677853483945 / 4503599627370496) (volts_A41 (3912153559003427 / 140737488355328)).
Proof. apply (A41_q_volts_mid 3912153559003427 140737488355328 2051677853483945 4503599627370496); [vm_compute; reflexivity | unfold fr, close, ctol, A41_lo, A41_hi, A41_c, A41_e; interval with (i_prec 80)]. Qed.
Lemma d_A41_1667u : close ctol (1636741441258383 / 562949953421312) (volts_A41 (1656929826301449 / 1125899906842624)).
Proof. apply (A41_q_volts_lo 1656929826301449 1125899906842624 1636741441258383 562949953421312); [vm_compute; reflexivity | unfold fr, close, ctol, A41_lo, A41_hi, A41_c, A41_e; interval with (i_prec 80)]. Qed.
Lemma d_A41_1680u : close ctol (836715358610303 / 2251799813685248) (volts_A41 (2389624742554381 / 70368744177664)).
Proof. apply (A41_q_volts_mid 2389624742554381 70368744177664 836715358610303 2251799813685248); [vm_compute; reflexivity | unfold fr, close, ctol, A41_lo, A41_hi, A41_c, A41_e; interval with (i_prec 80)]. Qed.
Lemma d_A41_1692r : rio_reads A41_c A41_e A41_lo A41_hi floor_volts ctol (Build_rio (Fin (2352888154827155 / 2251799813685248)) (Fin (5 / 1)) (Fin (3715469692580659 / 1125899906842624)) (Fin (6027 / 1024)) NInf false true true ((Fin (2577 / 1024)) :: (Fin (335 / 256)) :: (Fin (1103 / 512)) :: (Fin (42027 / 512)) :: (Fin (4909 / 1024)) :: (Fin (15761 / 256)) :: nil)) (1730768466065985 / 140737488355328).
Proof. apply (A41_rio_fin _ (2352888154827155 / 2251799813685248)); [reflexivity | apply (A41_q_mid 2352888154827155 2251799813685248 1730768466065985 140737488355328); [vm_compute; reflexivity | unfold fr, close, ctol, A41_c, A41_e; interval with (i_prec 80)]]. Qed.
Lemma d_A41_1705u : close ctol (2429763790787679 / 1125899906842624) (volts_A41 (6790160901562835 / 1125899906842624)).
Proof. apply (A41_q_volts_mid 6790160901562835 1125899906842624 2429763790787679 1125899906842624); [vm_compute; reflexivity | unfold fr, close, ctol, A41_lo, A41_hi, A41_c, A41_e; interval with (i_prec 80)]. Qed.
Lemma d_A41_1718u : close ctol (8169285403677571 / 4503599627370496) (volts_A41 (8053641622694883 / 1125899906842624)).
Proof. apply (A41_q_volts_mid 8053641622694883 1125899906842624 8169285403677571 4503599627370496); [vm_compute; reflexivity | unfold fr, close, ctol, A41_lo, A41_hi, A41_c, A41_e; interval with (i_prec 80)]. Qed.
Lemma d_A41_1731u : close ctol (1334631613185007 / 2251799813685248) (volts_A41 (3020960367848679 / 140737488355328)).
Proof. apply (A41_q_volts_mid 3020960367848679 140737488355328 1334631613185007 2251799813685248); [vm_compute; reflexivity | unfold fr, close, ctol, A41_lo, A41_hi, A41_c, A41_e; interval with (i_prec 80)]. Qed.
Lemma d_A41_1744u : close ctol (1095071316517601 / 2251799813685248) (volts_A41 (7338070047892547 / 281474976710656)).
Proof. apply (A41_q_volts_mid 7338070047892547 281474976710656 1095071316517601 2251799813685248); [vm_compute; reflexivity | unfold fr, close, ctol, A41_lo, A41_hi, A41_c, A41_e; interval with (i_prec 80)]. Qed.
Lemma d_A41_1756r : rio_reads A41_c A41_e A41_lo A41_hi floor_volts ctol (Build_rio (Fin (1636741441258383 / 562949953421312)) (Fin (5 / 1)) (Fin (1945 / 256)) (Fin (1781 / 512)) (Fin (0 / 1)) true false false ((Fin (2559 / 1024)) :: (Fin (1903 / 1024)) :: (Fin (75 / 1024)) :: (Fin (41255 / 512)) :: (Fin (1347 / 256)) :: (Fin (2031 / 128)) :: nil)) (9 / 2).
Proof. apply (A41_rio_fin _ (1636741441258383 / 562949953421312)); [reflexivity | apply (A41_q_lo 1636741441258383 562949953421312 9 2); [vm_compute; reflexivity | unfold fr, ctol, A41_lo, A41_c, A41_e; interval with (i_prec 80)]]. Qed.
Lemma d_A41_1769u : close ctol (8901502239622489 / 18014398509481984) (volts_A41 (3611959954209421 / 140737488355328)).
Proof. apply (A41_q_volts_mid 3611959954209421 140737488355328 8901502239622489 18014398509481984); [vm_compute; reflexivity | unfold fr, close, ctol, A41_lo, A41_hi, A41_c, A41_e; interval with (i_prec 80)]. Qed.
Lemma d_A41_1782u : close ctol (8384022224635977 / 18014398509481984) (volts_A41 (3830857695966003 / 140737488355328)).
Proof. apply (A41_q_volts_mid 3830857695966003 140737488355328 8384022224635977 18014398509481984); [vm_compute; reflexivity | unfold fr, close, ctol, A41_lo, A41_hi, A41_c, A41_e; interval with (i_prec 80)]. Qed.
Lemma d_A41_1795u : close ctol (7522403277966221 / 9007199254740992) (volts_A41 (269613160388107 / 17592186044416)).
Proof. apply (A41_q_volts_mid 269613160388107 17592186044416 7522403277966221 9007199254740992); [vm_compute; reflexivity | unfold fr, close, ctol, A41_lo, A41_hi, A41_c, A41_e; interval with (i_prec 80)]. Qed.
Lemma d_A41_1808u : close ctol (1636741441258383 / 562949953421312) (volts_A41 (2403572523510355 / 1125899906842624)).
Proof. apply (A41_q_volts_lo 2403572523510355 1125899906842624 1636741441258383 562949953421312); [vm_compute; reflexivity | unfold fr, close, ctol, A41_lo, A41_hi, A41_c, A41_e; interval with (i_prec 80)]. Qed.
Lemma d_A41_1820r : rio_reads A41_c A41_e A41_lo A41_hi floor_volts ctol (Build_rio (Fin (6491044311201869 / 18014398509481984)) (Fin (5 / 1)) (Fin (3715469692580659 / 1125899906842624)) (Fin (6 / 1)) (Fin (12 / 1)) true true true ((Fin (0 / 1)) :: (Fin (0 / 1)) :: (Fin (0 / 1)) :: (Fin (0 / 1)) :: (Fin (27 / 4)) :: (Fin (45 / 1)) :: nil)) (35 / 1).
Proof. apply (A41_rio_fin _ (6491044311201869 / 18014398509481984)); [reflexivity | apply (A41_q_hi 6491044311201869 18014398509481984 35 1); [vm_compute; reflexivity | unfold fr, ctol, A41_hi, A41_c, A41_e; interval with (i_prec 80)]]. Qed.
Lemma d_A41_1833u : close ctol (3704408309268871 / 4503599627370496) (volts_A41 (8757548191025589 / 562949953421312)).
Proof. apply (A41_q_volts_mid 8757548191025589 562949953421312 3704408309268871 4503599627370496); [vm_compute; reflexivity | unfold fr, close, ctol, A41_lo, A41_hi, A41_c, A41_e; interval with (i_prec 80)]. Qed.
Lemma d_A41_1846u : close ctol (7162916429671831 / 9007199254740992) (volts_A41 (1131601494185617 / 70368744177664)).
Proof. apply (A41_q_volts_mid 1131601494185617 70368744177664 7162916429671831 9007199254740992); [vm_compute; reflexivity | unfold fr, close, ctol, A41_lo, A41_hi, A41_c, A41_e; interval with (i_prec 80)]. Qed.
Lemma d_A41_1859u : close ctol (394566510986953 / 562949953421312) (volts_A41 (2562169361477903 / 140737488355328)).
Proof. apply (A41_q_volts_mid 2562169361477903 140737488355328 394566510986953 562949953421312); [vm_compute; reflexivity | unfold fr, close, ctol, A41_lo, A41_hi, A41_c, A41_e; interval with (i_prec 80)]. Qed.
Lemma d_A41_1872u : close ctol (3661906383558477 / 9007199254740992) (volts_A41 (4374997610523721 / 140737488355328)).
Proof. apply (A41_q_volts_mid 4374997610523721 140737488355328 3661906383558477 9007199254740992); [vm_compute; reflexivity | unfold fr, close, ctol, A41_lo, A41_hi, A41_c, A41_e; interval with (i_prec 80)]. Qed.
Lemma d_A41_1884r : rio_reads A41_c A41_e A41_lo A41_hi floor_volts ctol (Build_rio (Fin (3953211296520985 / 9007199254740992)) (Fin (147 / 32)) (Fin (3597 / 1024)) (Fin (3305 / 512)) (Fin (9923 / 1024)) true true true ((Fin (2163 / 1024)) :: (Fin (331 / 256)) :: (Fin (221 / 256)) :: (Fin (88819 / 512)) :: (Fin (3433 / 512)) :: (Fin (30593 / 512)) :: nil)) (8116150629596241 / 281474976710656).
Proof. apply (A41_rio_fin _ (3953211296520985 / 9007199254740992)); [reflexivity | apply (A41_q_mid 3953211296520985 9007199254740992 8116150629596241 281474976710656); [vm_compute; reflexivity | unfold fr, close, ctol, A41_c, A41_e; interval with (i_prec 80)]]. Qed.
Lemma d_A41_1897u : close ctol (297822115021859 / 562949953421312) (volts_A41 (24 / 1)).
Proof. apply (A41_q_volts_mid 24 1 297822115021859 562949953421312); [vm_compute; reflexivity | unfold fr, close, ctol, A41_lo, A41_hi, A41_c, A41_e; interval with (i_prec 80)]. Qed.
Lemma d_A41_1910u : close ctol (1636741441258383 / 562949953421312) (volts_A41 (3643645053841845 / 1125899906842624)).
Proof. apply (A41_q_volts_lo 3643645053841845 1125899906842624 1636741441258383 562949953421312); [vm_compute; reflexivity | unfold fr, close, ctol, A41_lo, A41_hi, A41_c, A41_e; interval with (i_prec 80)]. Qed.
Lemma d_A41_1923u : close ctol (1636741441258383 / 562949953421312) (volts_A41 ((-1190719779404471) / 562949953421312)).
Proof. apply (A41_q_volts_lo (-1190719779404471) 562949953421312 1636741441258383 562949953421312); [vm_compute; reflexivity | unfold fr, close, ctol, A41_lo, A41_hi, A41_c, A41_e; interval with (i_prec 80)]. Qed.
Lemma d_A41_1936u : close ctol (116986341644913 / 140737488355328) (volts_A41 (4333777576250869 / 281474976710656)).
Proof. apply (A41_q_volts_mid 4333777576250869 281474976710656 116986341644913 140737488355328); [vm_compute; reflexivity | unfold fr, close, ctol, A41_lo, A41_hi, A41_c, A41_e; interval with (i_prec 80)]. Qed.
Lemma d_A41_1948r : rio_reads A41_c A41_e A41_lo A41_hi floor_volts ctol (Build_rio (Fin (1636741441258383 / 562949953421312)) (Fin (4241 / 1024)) (Fin (3715469692580659 / 1125899906842624)) (Fin (721 / 128)) (Fin (10697 / 1024)) false true true ((Fin (2773 / 1024)) :: (Fin (763 / 1024)) :: (Fin (275 / 128)) :: (Fin (31287 / 1024)) :: (Fin (2785 / 512)) :: (Fin (42819 / 1024)) :: nil)) (9 / 2).
Proof. apply (A41_rio_fin _ (1636741441258383 / 562949953421312)); [reflexivity | apply (A41_q_lo 1636741441258383 562949953421312 9 2); [vm_compute; reflexivity | unfold fr, ctol, A41_lo, A41_c, A41_e; interval with (i_prec 80)]]. Qed.
Lemma d_A41_1961u : close ctol (2444059428625563 / 1125899906842624) (volts_A41 (6751141321332679 / 1125899906842624)).
Proof. apply (A41_q_volts_mid 6751141321332679 1125899906842624 2444059428625563 1125899906842624); [vm_compute; reflexivity | unfold fr, close, ctol, A41_lo, A41_hi, A41_c, A41_e; interval with (i_prec 80)]. Qed.
Lemma d_A41_1974u : close ctol (8208438084674447 / 9007199254740992) (volts_A41 (7918706747212487 / 562949953421312)).
Proof. apply (A41_q_volts_mid 7918706747212487 562949953421312 8208438084674447 9007199254740992); [vm_compute; reflexivity | unfold fr, close, ctol, A41_lo, A41_hi, A41_c, A41_e; interval with (i_prec 80)]. Qed.
Lemma d_A41_1987u : close ctol (6703041298096189 / 4503599627370496) (volts_A41 (2445301579153141 / 281474976710656)).
Proof. apply (A41_q_volts_mid 2445301579153141 281474976710656 6703041298096189 4503599627370496); [vm_compute; reflexivity | unfold fr, close, ctol, A41_lo, A41_hi, A41_c, A41_e; interval with (i_prec 80)]. Qed.
Lemma r_A02_2 : rio_reads A02_c A02_e A02_lo A02_hi floor_volts ctol (Build_rio (Fin ((-1) / 1)) (Fin (2758454771764429 / 562949953421312)) (Fin (3715469692580659 / 1125899906842624)) (Fin (6 / 1)) (Fin (12 / 1)) true true true ((Fin (0 / 1)) :: (Fin (0 / 1)) :: (Fin (0 / 1)) :: (Fin (0 / 1)) :: (Fin (27 / 4)) :: (Fin (45 / 1)) :: nil)) (45 / 2).
Proof. apply (A02_rio_fin _ ((-1) / 1)); [reflexivity | apply (A02_q_floor (-1) 1 45 2); vm_compute; reflexivity]. Qed.
Lemma r_A02_24 : rio_reads A02_c A02_e A02_lo A02_hi floor_volts ctol (Build_rio (Fin (7737125245533627 / 77371252455336267181195264)) (Fin (5 / 1)) (Fin (3715469692580659 / 1125899906842624)) (Fin (6 / 1)) (Fin ((-1) / 1)) true true true ((Fin (0 / 1)) :: (Fin (0 / 1)) :: (Fin (0 / 1)) :: (Fin (0 / 1)) :: (Fin (27 / 4)) :: (Fin (45 / 1)) :: nil)) (145 / 1).
Proof. apply (A02_rio_fin _ (7737125245533627 / 77371252455336267181195264)); [reflexivity | apply (A02_q_floor 7737125245533627 77371252455336267181195264 145 1); vm_compute; reflexivity]. Qed.
Lemma d_A02_2c : close ctol (45 / 2) (clamp A02_lo A02_hi ((-5) / 1)).
Proof. apply (A02_q_clamp_lo (-5) 1 45 2); vm_compute; reflexivity. Qed.
Lemma d_A02_8g : get_distance (set_distance A02_c A02_e A02_lo A02_hi sim_init (30 / 1)) = (30 / 1).
Proof. cbn [get_distance set_distance sim_distance]. first [reflexivity | lra]. Qed.
Lemma d_A02_15c : close ctol (80 / 1) (clamp A02_lo A02_hi (80 / 1)).
Proof. apply (A02_q_clamp_mid 80 1 80 1); vm_compute; reflexivity. Qed.
Lemma d_A02_21g : get_distance (set_distance A02_c A02_e A02_lo A02_hi sim_init (0 / 1)) = (0 / 1).
Proof. cbn [get_distance set_distance sim_distance]. first [reflexivity | lra]. Qed.
Lemma d_A02_29g : get_distance (set_distance A02_c A02_e A02_lo A02_hi sim_init (5 / 1)) = (5 / 1).
Proof. cbn [get_distance set_distance sim_distance]. first [reflexivity | lra]. Qed.
Lemma d_A02_37g : get_distance (set_distance A02_c A02_e A02_lo A02_hi sim_init (1000 / 1)) = (1000 / 1).
Proof. cbn [get_distance set_distance sim_distance]. first [reflexivity | lra]. Qed.
Lemma d_A02_46g : get_distance (set_distance A02_c A02_e A02_lo A02_hi sim_init (6333186975989761 / 281474976710656)) = (6333186975989761 / 281474976710656).
Proof. cbn [get_distance set_distance sim_distance]. first [reflexivity | lra]. Qed.
Lemma d_A02_54g : get_distance (set_distance A02_c A02_e A02_lo A02_hi sim_init (146 / 1)) = (146 / 1).
Proof. cbn [get_distance set_distance sim_distance]. first [reflexivity | lra]. Qed.
Lemma d_A02_62g : get_distance (set_distance A02_c A02_e A02_lo A02_hi sim_init (8828852634372255 / 140737488355328)) = (8828852634372255 / 140737488355328).
Proof. cbn [get_distance set_distance sim_distance]. first [reflexivity | lra]. Qed.
Lemma d_A02_70g : get_distance (set_distance A02_c A02_e A02_lo A02_hi sim_init (3800305037018511 / 35184372088832)) = (3800305037018511 / 35184372088832).
Proof. cbn [get_distance set_distance sim_distance]. first [reflexivity | lra]. Qed.
Lemma d_A02_78g : get_distance (set_distance A02_c A02_e A02_lo A02_hi sim_init ((-5841192612802681) / 562949953421312)) = ((-5841192612802681) / 562949953421312).
Proof. cbn [get_distance set_distance sim_distance]. first [reflexivity | lra]. Qed.
Lemma d_A02_86g : get_distance (set_distance A02_c A02_e A02_lo A02_hi sim_init (1762040374100945 / 35184372088832)) = (1762040374100945 / 35184372088832).
Proof. cbn [get_distance set_distance sim_distance]. first [reflexivity | lra]. Qed.
Lemma d_A02_94g : get_distance (set_distance A02_c A02_e A02_lo A02_hi sim_init (1267303346696013 / 70368744177664)) = (1267303346696013 / 70368744177664).
Proof. cbn [get_distance set_distance sim_distance]. first [reflexivity | lra]. Qed.
Lemma d_A02_102g : get_distance (set_distance A02_c A02_e A02_lo A02_hi sim_init (585633174358021 / 8796093022208)) = (585633174358021 / 8796093022208).
Proof. cbn [get_distance set_distance sim_distance]. first [reflexivity | lra]. Qed.
Lemma d_A02_110g : get_distance (set_distance A02_c A02_e A02_lo A02_hi sim_init (8538861630681047 / 70368744177664)) = (8538861630681047 / 70368744177664).
Proof. cbn [get_distance set_distance sim_distance]. first [reflexivity | lra]. Qed.
Lemma d_A02_118g : get_distance (set_distance A02_c A02_e A02_lo A02_hi sim_init (6877451445058875 / 281474976710656)) = (6877451445058875 / 281474976710656).
Proof. cbn [get_distance set_distance sim_distance]. first [reflexivity | lra]. Qed.
Lemma d_A02_126g : get_distance (set_distance A02_c A02_e A02_lo A02_hi sim_init (646304728679759 / 8796093022208)) = (646304728679759 / 8796093022208).
Proof. cbn [get_distance set_distance sim_distance]. first [reflexivity | lra]. Qed.
Lemma d_A02_134g : get_distance (set_distance A02_c A02_e A02_lo A02_hi sim_init (3310677252655705 / 35184372088832)) = (3310677252655705 / 35184372088832).
Proof. cbn [get_distance set_distance sim_distance]. first [reflexivity | lra]. Qed.
Lemma d_A02_142g : get_distance (set_distance A02_c A02_e A02_lo A02_hi sim_init (4371788666583053 / 281474976710656)) = (4371788666583053 / 281474976710656).
Proof. cbn [get_distance set_distance sim_distance]. first [reflexivity | lra]. Qed.
Lemma d_A02_150g : get_distance (set_distance A02_c A02_e A02_lo A02_hi sim_init (1813134673521081 / 17592186044416)) = (1813134673521081 / 17592186044416).
Proof. cbn [get_distance set_distance sim_distance]. first [reflexivity | lra]. Qed.
Lemma d_A02_158g : get_distance (set_distance A02_c A02_e A02_lo A02_hi sim_init (203 / 1)) = (203 / 1).
Proof. cbn [get_distance set_distance sim_distance]. first [reflexivity | lra]. Qed.
Lemma d_A02_166g : get_distance (set_distance A02_c A02_e A02_lo A02_hi sim_init (2296180966369343 / 35184372088832)) = (2296180966369343 / 35184372088832).
Proof. cbn [get_distance set_distance sim_distance]. first [reflexivity | lra]. Qed.
Lemma d_A02_174g : get_distance (set_distance A02_c A02_e A02_lo A02_hi sim_init (907908191928679 / 35184372088832)) = (907908191928679 / 35184372088832).
Proof. cbn [get_distance set_distance sim_distance]. first [reflexivity | lra]. Qed.
Lemma d_A02_182g : get_distance (set_distance A02_c A02_e A02_lo A02_hi sim_init (4464529606316745 / 281474976710656)) = (4464529606316745 / 281474976710656).
Proof. cbn [get_distance set_distance sim_distance]. first [reflexivity | lra]. Qed.
Lemma d_A02_190g : get_distance (set_distance A02_c A02_e A02_lo A02_hi sim_init (3464812116533627 / 70368744177664)) = (3464812116533627 / 70368744177664).
Proof. cbn [get_distance set_distance sim_distance]. first [reflexivity | lra]. Qed.
Lemma d_A02_198g : get_distance (set_distance A02_c A02_e A02_lo A02_hi sim_init (1128133937586413 / 35184372088832)) = (1128133937586413 / 35184372088832).
Proof. cbn [get_distance set_distance sim_distance]. first [reflexivity | lra]. Qed.
Lemma d_A02_206g : get_distance (set_distance A02_c A02_e A02_lo A02_hi sim_init (1575986788864043 / 70368744177664)) = (1575986788864043 / 70368744177664).
Proof. cbn [get_distance set_distance sim_distance]. first [reflexivity | lra]. Qed.
Lemma d_A02_214g : get_distance (set_distance A02_c A02_e A02_lo A02_hi sim_init (2776423116325511 / 35184372088832)) = (2776423116325511 / 35184372088832).
Proof. cbn [get_distance set_distance sim_distance]. first [reflexivity | lra]. Qed.
Lemma d_A02_222g : get_distance (set_distance A02_c A02_e A02_lo A02_hi sim_init (2896525882735257 / 70368744177664)) = (2896525882735257 / 70368744177664).
Proof. cbn [get_distance set_distance sim_distance]. first [reflexivity | lra]. Qed.
Lemma d_A02_230g : get_distance (set_distance A02_c A02_e A02_lo A02_hi sim_init (2654849611188359 / 140737488355328)) = (2654849611188359 / 140737488355328).
Proof. cbn [get_distance set_distance sim_distance]. first [reflexivity | lra]. Qed.
Lemma d_A02_238g : get_distance (set_distance A02_c A02_e A02_lo A02_hi sim_init (5752243969754217 / 35184372088832)) = (5752243969754217 / 35184372088832).
Proof. cbn [get_distance set_distance sim_distance]. first [reflexivity | lra]. Qed.
Lemma d_A02_246g : get_distance (set_distance A02_c A02_e A02_lo A02_hi sim_init (1569137927582095 / 8796093022208)) = (1569137927582095 / 8796093022208).
Proof. cbn [get_distance set_distance sim_distance]. first [reflexivity | lra]. Qed.
Lemma d_A02_254g : get_distance (set_distance A02_c A02_e A02_lo A02_hi sim_init (1793038945261479 / 17592186044416)) = (1793038945261479 / 17592186044416).
Proof. cbn [get_distance set_distance sim_distance]. first [reflexivity | lra]. Qed.
Lemma d_A02_262g : get_distance (set_distance A02_c A02_e A02_lo A02_hi sim_init (2524324634081087 / 17592186044416)) = (2524324634081087 / 17592186044416).
Proof. cbn [get_distance set_distance sim_distance]. first [reflexivity | lra]. Qed.
Lemma d_A02_270g : get_distance (set_distance A02_c A02_e A02_lo A02_hi sim_init (1305297019576917 / 35184372088832)) = (1305297019576917 / 35184372088832).
Proof. cbn [get_distance set_distance sim_distance]. first [reflexivity | lra]. Qed.
Lemma d_A02_278g : get_distance (set_distance A02_c A02_e A02_lo A02_hi sim_init (283 / 1)) = (283 / 1).
Proof. cbn [get_distance set_distance sim_distance]. first [reflexivity | lra]. Qed.
Lemma d_A02_286g : get_distance (set_distance A02_c A02_e A02_lo A02_hi sim_init (3239010655950263 / 17592186044416)) = (3239010655950263 / 17592186044416).
Proof. cbn [get_distance set_distance sim_distance]. first [reflexivity | lra]. Qed.
Lemma d_A02_294g : get_distance (set_distance A02_c A02_e A02_lo A02_hi sim_init (3909798097648385 / 17592186044416)) = (3909798097648385 / 17592186044416).
Proof. cbn [get_distance set_distance sim_distance]. first [reflexivity | lra]. Qed.
Lemma d_A02_302g : get_distance (set_distance A02_c A02_e A02_lo A02_hi sim_init (3961981456196947 / 35184372088832)) = (3961981456196947 / 35184372088832).
Proof. cbn [get_distance set_distance sim_distance]. first [reflexivity | lra]. Qed.
Lemma d_A02_310g : get_distance (set_distance A02_c A02_e A02_lo A02_hi sim_init (8390068335666717 / 140737488355328)) = (8390068335666717 / 140737488355328).
Proof. cbn [get_distance set_distance sim_distance]. first [reflexivity | lra]. Qed.
Lemma d_A02_318g : get_distance (set_distance A02_c A02_e A02_lo A02_hi sim_init (2177097893858663 / 8796093022208)) = (2177097893858663 / 8796093022208).
Proof. cbn [get_distance set_distance sim_distance]. first [reflexivity | lra]. Qed.
Lemma d_A02_326g : get_distance (set_distance A02_c A02_e A02_lo A02_hi sim_init (4472238412541439 / 70368744177664)) = (4472238412541439 / 70368744177664).
Proof. cbn [get_distance set_distance sim_distance]. first [reflexivity | lra]. Qed.
Lemma d_A02_334g : get_distance (set_distance A02_c A02_e A02_lo A02_hi sim_init (4937460843521821 / 35184372088832)) = (4937460843521821 / 35184372088832).
Proof. cbn [get_distance set_distance sim_distance]. first [reflexivity | lra]. Qed.
Lemma d_A02_342g : get_distance (set_distance A02_c A02_e A02_lo A02_hi sim_init (6247381133438995 / 70368744177664)) = (6247381133438995 / 70368744177664).
Proof. cbn [get_distance set_distance sim_distance]. first [reflexivity | lra]. Qed.
Lemma d_A02_350g : get_distance (set_distance A02_c A02_e A02_lo A02_hi sim_init (2358474700623827 / 281474976710656)) = (2358474700623827 / 281474976710656).
Proof. cbn [get_distance set_distance sim_distance]. first [reflexivity | lra]. Qed.
Lemma d_A02_358g : get_distance (set_distance A02_c A02_e A02_lo A02_hi sim_init (2252053970360161 / 549755813888)) = (2252053970360161 / 549755813888).
Proof. cbn [get_distance set_distance sim_distance]. first [reflexivity | lra]. Qed.
Lemma d_A02_366g : get_distance (set_distance A02_c A02_e A02_lo A02_hi sim_init (194958504446303 / 281474976710656)) = (194958504446303 / 281474976710656).
Proof. cbn [get_distance set_distance sim_distance]. first [reflexivity | lra]. Qed.
Lemma d_A02_374g : get_distance (set_distance A02_c A02_e A02_lo A02_hi sim_init (2616142766194269 / 35184372088832)) = (2616142766194269 / 35184372088832).
Proof. cbn [get_distance set_distance sim_distance]. first [reflexivity | lra]. Qed.
Lemma d_A02_382g : get_distance (set_distance A02_c A02_e A02_lo A02_hi sim_init (2280464267608277 / 17592186044416)) = (2280464267608277 / 17592186044416).
Proof. cbn [get_distance set_distance sim_distance]. first [reflexivity | lra]. Qed.
Lemma d_A02_390g : get_distance (set_distance A02_c A02_e A02_lo A02_hi sim_init (1184973338067049 / 8796093022208)) = (1184973338067049 / 8796093022208).
Proof. cbn [get_distance set_distance sim_distance]. first [reflexivity | lra]. Qed.
Lemma d_A02_398g : get_distance (set_distance A02_c A02_e A02_lo A02_hi sim_init (3219789160594671 / 70368744177664)) = (3219789160594671 / 70368744177664).
Proof. cbn [get_distance set_distance sim_distance]. first [reflexivity | lra]. Qed.
Lemma d_A02_406g : get_distance (set_distance A02_c A02_e A02_lo A02_hi sim_init (1611920445499057 / 35184372088832)) = (1611920445499057 / 35184372088832).
Proof. cbn [get_distance set_distance sim_distance]. first [reflexivity | lra]. Qed.
Lemma d_A02_414g : get_distance (set_distance A02_c A02_e A02_lo A02_hi sim_init (3828928635804111 / 35184372088832)) = (3828928635804111 / 35184372088832).
Proof. cbn [get_distance set_distance sim_distance]. first [reflexivity | lra]. Qed.
Lemma d_A02_422g : get_distance (set_distance A02_c A02_e A02_lo A02_hi sim_init (3004040216580547 / 70368744177664)) = (3004040216580547 / 70368744177664).
Proof. cbn [get_distance set_distance sim_distance]. first [reflexivity | lra]. Qed.
Lemma d_A02_430g : get_distance (set_distance A02_c A02_e A02_lo A02_hi sim_init (298652474317237 / 8796093022208)) = (298652474317237 / 8796093022208).
Proof. cbn [get_distance set_distance sim_distance]. first [reflexivity | lra]. Qed.
Lemma d_A02_438g : get_distance (set_distance A02_c A02_e A02_lo A02_hi sim_init (8357765375592051 / 140737488355328)) = (8357765375592051 / 140737488355328).
Proof. cbn [get_distance set_distance sim_distance]. first [reflexivity | lra]. Qed.
Lemma d_A02_446g : get_distance (set_distance A02_c A02_e A02_lo A02_hi sim_init (2640954368662893 / 140737488355328)) = (2640954368662893 / 140737488355328).
Proof. cbn [get_distance set_distance sim_distance]. first [reflexivity | lra]. Qed.
Lemma d_A02_454g : get_distance (set_distance A02_c A02_e A02_lo A02_hi sim_init (3384267142597167 / 70368744177664)) = (3384267142597167 / 70368744177664).
Proof. cbn [get_distance set_distance sim_distance]. first [reflexivity | lra]. Qed.
Lemma d_A02_462g : get_distance (set_distance A02_c A02_e A02_lo A02_hi sim_init (4110314732162397 / 70368744177664)) = (4110314732162397 / 70368744177664).
Proof. cbn [get_distance set_distance sim_distance]. first [reflexivity | lra]. Qed.
Lemma d_A02_470g : get_distance (set_distance A02_c A02_e A02_lo A02_hi sim_init (7887055352782791 / 70368744177664)) = (7887055352782791 / 70368744177664).
Proof. cbn [get_distance set_distance sim_distance]. first [reflexivity | lra]. Qed.
Lemma d_A02_478g : get_distance (set_distance A02_c A02_e A02_lo A02_hi sim_init (5877968793371255 / 140737488355328)) = (5877968793371255 / 140737488355328).
Proof. cbn [get_distance set_distance sim_distance]. first [reflexivity | lra]. Qed.
Lemma d_A02_486g : get_distance (set_distance A02_c A02_e A02_lo A02_hi sim_init (6242884844205081 / 140737488355328)) = (6242884844205081 / 140737488355328).
Proof. cbn [get_distance set_distance sim_distance]. first [reflexivity | lra]. Qed.
Lemma d_A02_494g : get_distance (set_distance A02_c A02_e A02_lo A02_hi sim_init (8947465774490371 / 70368744177664)) = (8947465774490371 / 70368744177664).
Proof. cbn [get_distance set_distance sim_distance]. first [reflexivity | lra]. Qed.
Lemma d_A02_502g : get_distance (set_distance A02_c A02_e A02_lo A02_hi sim_init (1127488092360745 / 8796093022208)) = (1127488092360745 / 8796093022208).
Proof. cbn [get_distance set_distance sim_distance]. first [reflexivity | lra]. Qed.
Lemma d_A02_510g : get_distance (set_distance A02_c A02_e A02_lo A02_hi sim_init (5634369080247575 / 140737488355328)) = (5634369080247575 / 140737488355328).
Proof. cbn [get_distance set_distance sim_distance]. first [reflexivity | lra]. Qed.
Lemma d_A02_518g : get_distance (set_distance A02_c A02_e A02_lo A02_hi sim_init ((-2064536700811787) / 562949953421312)) = ((-2064536700811787) / 562949953421312).
Proof. cbn [get_distance set_distance sim_distance]. first [reflexivity | lra]. Qed.
Lemma d_A02_526g : get_distance (set_distance A02_c A02_e A02_lo A02_hi sim_init (7323342855016715 / 70368744177664)) = (7323342855016715 / 70368744177664).
Proof. cbn [get_distance set_distance sim_distance]. first [reflexivity | lra]. Qed.
Lemma d_A02_534g : get_distance (set_distance A02_c A02_e A02_lo A02_hi sim_init (1338375599410315 / 17592186044416)) = (1338375599410315 / 17592186044416).
Proof. cbn [get_distance set_distance sim_distance]. first [reflexivity | lra]. Qed.
Lemma d_A02_542g : get_distance (set_distance A02_c A02_e A02_lo A02_hi sim_init ((-521125755011247) / 70368744177664)) = ((-521125755011247) / 70368744177664).
Proof. cbn [get_distance set_distance sim_distance]. first [reflexivity | lra]. Qed.
Lemma d_A02_550g : get_distance (set_distance A02_c A02_e A02_lo A02_hi sim_init (3492941497768405 / 70368744177664)) = (3492941497768405 / 70368744177664).
Proof. cbn [get_distance set_distance sim_distance]. first [reflexivity | lra]. Qed.
Lemma d_A02_558g : get_distance (set_distance A02_c A02_e A02_lo A02_hi sim_init (1770782088166203 / 35184372088832)) = (1770782088166203 / 35184372088832).
Proof. cbn [get_distance set_distance sim_distance]. first [reflexivity | lra]. Qed.
Lemma d_A02_566g : get_distance (set_distance A02_c A02_e A02_lo A02_hi sim_init (3368577236192559 / 281474976710656)) = (3368577236192559 / 281474976710656).
Proof. cbn [get_distance set_distance sim_distance]. first [reflexivity | lra]. Qed.
Lemma d_A02_574g : get_distance (set_distance A02_c A02_e A02_lo A02_hi sim_init (1353836502462297 / 35184372088832)) = (1353836502462297 / 35184372088832).
Proof. cbn [get_distance set_distance sim_distance]. first [reflexivity | lra]. Qed.
Lemma d_A02_582g : get_distance (set_distance A02_c A02_e A02_lo A02_hi sim_init (5668572028603665 / 17592186044416)) = (5668572028603665 / 17592186044416).
Proof. cbn [get_distance set_distance sim_distance]. first [reflexivity | lra]. Qed.
Lemma d_A02_590g : get_distance (set_distance A02_c A02_e A02_lo A02_hi sim_init (1753516423917121 / 35184372088832)) = (1753516423917121 / 35184372088832).
Proof. cbn [get_distance set_distance sim_distance]. first [reflexivity | lra]. Qed.
Lemma d_A02_598g : get_distance (set_distance A02_c A02_e A02_lo A02_hi sim_init (201 / 1)) = (201 / 1).
Proof. cbn [get_distance set_distance sim_distance]. first [reflexivity | lra]. Qed.
Lemma d_A02_606g : get_distance (set_distance A02_c A02_e A02_lo A02_hi sim_init ((-6306881802065799) / 1125899906842624)) = ((-6306881802065799) / 1125899906842624).
Proof. cbn [get_distance set_distance sim_distance]. first [reflexivity | lra]. Qed.
Lemma d_A02_614g : get_distance (set_distance A02_c A02_e A02_lo A02_hi sim_init (1461997058948843 / 17592186044416)) = (1461997058948843 / 17592186044416).
Proof. cbn [get_distance set_distance sim_distance]. first [reflexivity | lra]. Qed.
Lemma d_A02_622g : get_distance (set_distance A02_c A02_e A02_lo A02_hi sim_init (673549154732013 / 8796093022208)) = (673549154732013 / 8796093022208).
Proof. cbn [get_distance set_distance sim_distance]. first [reflexivity | lra]. Qed.
Lemma d_A02_630g : get_distance (set_distance A02_c A02_e A02_lo A02_hi sim_init (2927150880519075 / 35184372088832)) = (2927150880519075 / 35184372088832).
Proof. cbn [get_distance set_distance sim_distance]. first [reflexivity | lra]. Qed.
Lemma d_A02_638g : get_distance (set_distance A02_c A02_e A02_lo A02_hi sim_init (8426203386033191 / 70368744177664)) = (8426203386033191 / 70368744177664).
Proof. cbn [get_distance set_distance sim_distance]. first [reflexivity | lra]. Qed.
Lemma d_A02_646g : get_distance (set_distance A02_c A02_e A02_lo A02_hi sim_init (6678881627131817 / 17592186044416)) = (6678881627131817 / 17592186044416).
Proof. cbn [get_distance set_distance sim_distance]. first [reflexivity | lra]. Qed.
Lemma d_A02_654g : get_distance (set_distance A02_c A02_e A02_lo A02_hi sim_init (6193157756787871 / 70368744177664)) = (6193157756787871 / 70368744177664).
Proof. cbn [get_distance set_distance sim_distance]. first [reflexivity | lra]. Qed.
Lemma d_A02_662g : get_distance (set_distance A02_c A02_e A02_lo A02_hi sim_init (8654103821963625 / 70368744177664)) = (8654103821963625 / 70368744177664).
Proof. cbn [get_distance set_distance sim_distance]. first [reflexivity | lra]. Qed.
Lemma r_A21_438 : rio_reads A21_c A21_e A21_lo A21_hi floor_volts ctol (Build_rio (Fin ((-100000000000000001097906362944045541740492309677311846336810682903157585404911491537163328978494688899061249669721172515611590283743140088328307009198146046031271664502933027185697489699588559043338384466165001178426897626212945177628091195786707458122783970171784415105291802893207873272974885715430223118336) / 1)) (Fin (0 / 1)) (Fin (3715469692580659 / 1125899906842624)) (Fin (6 / 1)) (Fin (12 / 1)) true true true ((Fin (0 / 1)) :: (Fin (0 / 1)) :: (Fin (0 / 1)) :: (Fin (0 / 1)) :: (Fin (27 / 4)) :: (Fin (45 / 1)) :: nil)) (5749786070656609 / 281474976710656).
Proof. apply (A21_rio_fin _ ((-100000000000000001097906362944045541740492309677311846336810682903157585404911491537163328978494688899061249669721172515611590283743140088328307009198146046031271664502933027185697489699588559043338384466165001178426897626212945177628091195786707458122783970171784415105291802893207873272974885715430223118336) / 1)); [reflexivity | apply (A21_q_floor (-100000000000000001097906362944045541740492309677311846336810682903157585404911491537163328978494688899061249669721172515611590283743140088328307009198146046031271664502933027185697489699588559043338384466165001178426897626212945177628091195786707458122783970171784415105291802893207873272974885715430223118336) 1 5749786070656609 281474976710656); vm_compute; reflexivity]. Qed.
Lemma r_A21_823 : rio_reads A21_c A21_e A21_lo A21_hi floor_volts ctol (Build_rio (Fin (1878349482569677 / 1180591620717411303424)) (Fin (1 / 1)) (Fin (3193 / 1024)) (Fin (1393 / 256)) (Fin (10477 / 1024)) true true true ((Fin (1937 / 1024)) :: (Fin (337 / 512)) :: (Fin (493 / 512)) :: (Fin (160739 / 1024)) :: (Fin (2969 / 512)) :: (Fin (2513 / 128)) :: nil)) (80 / 1).
Proof. apply (A21_rio_fin _ (1878349482569677 / 1180591620717411303424)); [reflexivity | apply (A21_q_floor 1878349482569677 1180591620717411303424 80 1); vm_compute; reflexivity]. Qed.
Lemma d_A21_672g : get_distance (set_distance A21_c A21_e A21_lo A21_hi sim_init (100 / 1)) = (100 / 1).
Proof. cbn [get_distance set_distance sim_distance]. first [reflexivity | lra]. Qed.
Lemma d_A21_680g : get_distance (set_distance A21_c A21_e A21_lo A21_hi sim_init (150 / 1)) = (150 / 1).
Proof. cbn [get_distance set_distance sim_distance]. first [reflexivity | lra]. Qed.
Lemma d_A21_688g : get_distance (set_distance A21_c A21_e A21_lo A21_hi sim_init ((-1) / 1)) = ((-1) / 1).
Proof. cbn [get_distance set_distance sim_distance]. first [reflexivity | lra]. Qed.
Lemma d_A21_696g : get_distance (set_distance A21_c A21_e A21_lo A21_hi sim_init (10 / 1)) = (10 / 1).
Proof. cbn [get_distance set_distance sim_distance]. first [reflexivity | lra]. Qed.
Lemma d_A21_704g : get_distance (set_distance A21_c A21_e A21_lo A21_hi sim_init (1000000 / 1)) = (1000000 / 1).
Proof. cbn [get_distance set_distance sim_distance]. first [reflexivity | lra]. Qed.
Lemma d_A21_713g : get_distance (set_distance A21_c A21_e A21_lo A21_hi sim_init (5629499534213119 / 70368744177664)) = (5629499534213119 / 70368744177664).
Proof. cbn [get_distance set_distance sim_distance]. first [reflexivity | lra]. Qed.
Lemma d_A21_721g : get_distance (set_distance A21_c A21_e A21_lo A21_hi sim_init (10 / 1)) = (10 / 1).
Proof. cbn [get_distance set_distance sim_distance]. first [reflexivity | lra]. Qed.
Lemma d_A21_729g : get_distance (set_distance A21_c A21_e A21_lo A21_hi sim_init (4646374270017 / 274877906944)) = (4646374270017 / 274877906944).
Proof. cbn [get_distance set_distance sim_distance]. first [reflexivity | lra]. Qed.
Lemma d_A21_737g : get_distance (set_distance A21_c A21_e A21_lo A21_hi sim_init (1525158231411369 / 70368744177664)) = (1525158231411369 / 70368744177664).
Proof. cbn [get_distance set_distance sim_distance]. first [reflexivity | lra]. Qed.
Lemma d_A21_745g : get_distance (set_distance A21_c A21_e A21_lo A21_hi sim_init (3530837339185071 / 70368744177664)) = (3530837339185071 / 70368744177664).
Proof. cbn [get_distance set_distance sim_distance]. first [reflexivity | lra]. Qed.
Lemma d_A21_753g : get_distance (set_distance A21_c A21_e A21_lo A21_hi sim_init (8454275892454961 / 140737488355328)) = (8454275892454961 / 140737488355328).
Proof. cbn [get_distance set_distance sim_distance]. first [reflexivity | lra]. Qed.
Lemma d_A21_761g : get_distance (set_distance A21_c A21_e A21_lo A21_hi sim_init (621093396171889 / 8796093022208)) = (621093396171889 / 8796093022208).
Proof. cbn [get_distance set_distance sim_distance]. first [reflexivity | lra]. Qed.
Lemma d_A21_769g : get_distance (set_distance A21_c A21_e A21_lo A21_hi sim_init (5196096771146241 / 70368744177664)) = (5196096771146241 / 70368744177664).
Proof. cbn [get_distance set_distance sim_distance]. first [reflexivity | lra]. Qed.
Lemma d_A21_777g : get_distance (set_distance A21_c A21_e A21_lo A21_hi sim_init (7720322830627997 / 140737488355328)) = (7720322830627997 / 140737488355328).
Proof. cbn [get_distance set_distance sim_distance]. first [reflexivity | lra]. Qed.
Lemma d_A21_785g : get_distance (set_distance A21_c A21_e A21_lo A21_hi sim_init (4619678197807663 / 70368744177664)) = (4619678197807663 / 70368744177664).
Proof. cbn [get_distance set_distance sim_distance]. first [reflexivity | lra]. Qed.
Lemma d_A21_793g : get_distance (set_distance A21_c A21_e A21_lo A21_hi sim_init (2755756897201581 / 70368744177664)) = (2755756897201581 / 70368744177664).
Proof. cbn [get_distance set_distance sim_distance]. first [reflexivity | lra]. Qed.
Lemma d_A21_801g : get_distance (set_distance A21_c A21_e A21_lo A21_hi sim_init (5935775677285255 / 140737488355328)) = (5935775677285255 / 140737488355328).
Proof. cbn [get_distance set_distance sim_distance]. first [reflexivity | lra]. Qed.
Lemma d_A21_809g : get_distance (set_distance A21_c A21_e A21_lo A21_hi sim_init (5063038441788415 / 562949953421312)) = (5063038441788415 / 562949953421312).
Proof. cbn [get_distance set_distance sim_distance]. first [reflexivity | lra]. Qed.
Lemma d_A21_817g : get_distance (set_distance A21_c A21_e A21_lo A21_hi sim_init (2438689452546753 / 35184372088832)) = (2438689452546753 / 35184372088832).
Proof. cbn [get_distance set_distance sim_distance]. first [reflexivity | lra]. Qed.
Lemma d_A21_825g : get_distance (set_distance A21_c A21_e A21_lo A21_hi sim_init (1342286788059761 / 17592186044416)) = (1342286788059761 / 17592186044416).
Proof. cbn [get_distance set_distance sim_distance]. first [reflexivity | lra]. Qed.
Lemma d_A21_833g : get_distance (set_distance A21_c A21_e A21_lo A21_hi sim_init (3250530590406925 / 1125899906842624)) = (3250530590406925 / 1125899906842624).
Proof. cbn [get_distance set_distance sim_distance]. first [reflexivity | lra]. Qed.
Lemma d_A21_841g : get_distance (set_distance A21_c A21_e A21_lo A21_hi sim_init (57 / 1)) = (57 / 1).
Proof. cbn [get_distance set_distance sim_distance]. first [reflexivity | lra]. Qed.
Lemma d_A21_849g : get_distance (set_distance A21_c A21_e A21_lo A21_hi sim_init (8553429519455665 / 140737488355328)) = (8553429519455665 / 140737488355328).
Proof. cbn [get_distance set_distance sim_distance]. first [reflexivity | lra]. Qed.
Lemma d_A21_857g : get_distance (set_distance A21_c A21_e A21_lo A21_hi sim_init (2247339293615661 / 70368744177664)) = (2247339293615661 / 70368744177664).
Proof. cbn [get_distance set_distance sim_distance]. first [reflexivity | lra]. Qed.
Lemma d_A21_865g : get_distance (set_distance A21_c A21_e A21_lo A21_hi sim_init (4726749736695291 / 70368744177664)) = (4726749736695291 / 70368744177664).
Proof. cbn [get_distance set_distance sim_distance]. first [reflexivity | lra]. Qed.
Lemma d_A21_873g : get_distance (set_distance A21_c A21_e A21_lo A21_hi sim_init (6876860571694309 / 4503599627370496)) = (6876860571694309 / 4503599627370496).
Proof. cbn [get_distance set_distance sim_distance]. first [reflexivity | lra]. Qed.
Lemma d_A21_881g : get_distance (set_distance A21_c A21_e A21_lo A21_hi sim_init (3943211508346049 / 70368744177664)) = (3943211508346049 / 70368744177664).
Proof. cbn [get_distance set_distance sim_distance]. first [reflexivity | lra]. Qed.
Lemma d_A21_889g : get_distance (set_distance A21_c A21_e A21_lo A21_hi sim_init (7559914343929645 / 576460752303423488)) = (7559914343929645 / 576460752303423488).
Proof. cbn [get_distance set_distance sim_distance]. first [reflexivity | lra]. Qed.
Lemma d_A21_897g : get_distance (set_distance A21_c A21_e A21_lo A21_hi sim_init (3174973253048301 / 562949953421312)) = (3174973253048301 / 562949953421312).
Proof. cbn [get_distance set_distance sim_distance]. first [reflexivity | lra]. Qed.
Lemma d_A21_905g : get_distance (set_distance A21_c A21_e A21_lo A21_hi sim_init (5328878837149031 / 35184372088832)) = (5328878837149031 / 35184372088832).
Proof. cbn [get_distance set_distance sim_distance]. first [reflexivity | lra]. Qed.
Lemma d_A21_913g : get_distance (set_distance A21_c A21_e A21_lo A21_hi sim_init (6128023599541429 / 9007199254740992)) = (6128023599541429 / 9007199254740992).
Proof. cbn [get_distance set_distance sim_distance]. first [reflexivity | lra]. Qed.
Lemma d_A21_921g : get_distance (set_distance A21_c A21_e A21_lo A21_hi sim_init (253722960562389 / 17592186044416)) = (253722960562389 / 17592186044416).
Proof. cbn [get_distance set_distance sim_distance]. first [reflexivity | lra]. Qed.
Lemma d_A21_929g : get_distance (set_distance A21_c A21_e A21_lo A21_hi sim_init (2582818974277779 / 70368744177664)) = (2582818974277779 / 70368744177664).
Proof. cbn [get_distance set_distance sim_distance]. first [reflexivity | lra]. Qed.
Lemma d_A21_937g : get_distance (set_distance A21_c A21_e A21_lo A21_hi sim_init (3077502456926909 / 70368744177664)) = (3077502456926909 / 70368744177664).
Proof. cbn [get_distance set_distance sim_distance]. first [reflexivity | lra]. Qed.
Lemma d_A21_945g : get_distance (set_distance A21_c A21_e A21_lo A21_hi sim_init (7868935190651477 / 281474976710656)) = (7868935190651477 / 281474976710656).
Proof. cbn [get_distance set_distance sim_distance]. first [reflexivity | lra]. Qed.
Lemma d_A21_953g : get_distance (set_distance A21_c A21_e A21_lo A21_hi sim_init (395497995311989 / 140737488355328)) = (395497995311989 / 140737488355328).
Proof. cbn [get_distance set_distance sim_distance]. first [reflexivity | lra]. Qed.
Lemma d_A21_961g : get_distance (set_distance A21_c A21_e A21_lo A21_hi sim_init (2470130639508957 / 35184372088832)) = (2470130639508957 / 35184372088832).
Proof. cbn [get_distance set_distance sim_distance]. first [reflexivity | lra]. Qed.
Lemma d_A21_969g : get_distance (set_distance A21_c A21_e A21_lo A21_hi sim_init (3804041261826761 / 70368744177664)) = (3804041261826761 / 70368744177664).
Proof. cbn [get_distance set_distance sim_distance]. first [reflexivity | lra]. Qed.
Lemma d_A21_977g : get_distance (set_distance A21_c A21_e A21_lo A21_hi sim_init (7357375501539357 / 140737488355328)) = (7357375501539357 / 140737488355328).
Proof. cbn [get_distance set_distance sim_distance]. first [reflexivity | lra]. Qed.
Lemma d_A21_985g : get_distance (set_distance A21_c A21_e A21_lo A21_hi sim_init ((-1959091685223537) / 562949953421312)) = ((-1959091685223537) / 562949953421312).
Proof. cbn [get_distance set_distance sim_distance]. first [reflexivity | lra]. Qed.
Lemma d_A21_993g : get_distance (set_distance A21_c A21_e A21_lo A21_hi sim_init (7170606840554563 / 35184372088832)) = (7170606840554563 / 35184372088832).
Proof. cbn [get_distance set_distance sim_distance]. first [reflexivity | lra]. Qed.
Lemma d_A21_1001g : get_distance (set_distance A21_c A21_e A21_lo A21_hi sim_init (9005466371165189 / 140737488355328)) = (9005466371165189 / 140737488355328).
Proof. cbn [get_distance set_distance sim_distance]. first [reflexivity | lra]. Qed.
Lemma d_A21_1009g : get_distance (set_distance A21_c A21_e A21_lo A21_hi sim_init (117 / 1)) = (117 / 1).
Proof. cbn [get_distance set_distance sim_distance]. first [reflexivity | lra]. Qed.
Lemma d_A21_1017g : get_distance (set_distance A21_c A21_e A21_lo A21_hi sim_init (2721319471446511 / 35184372088832)) = (2721319471446511 / 35184372088832).
Proof. cbn [get_distance set_distance sim_distance]. first [reflexivity | lra]. Qed.
Lemma d_A21_1025g : get_distance (set_distance A21_c A21_e A21_lo A21_hi sim_init (4372630417906679 / 70368744177664)) = (4372630417906679 / 70368744177664).
Proof. cbn [get_distance set_distance sim_distance]. first [reflexivity | lra]. Qed.
Lemma d_A21_1033g : get_distance (set_distance A21_c A21_e A21_lo A21_hi sim_init (1297055769586045 / 17592186044416)) = (1297055769586045 / 17592186044416).
Proof. cbn [get_distance set_distance sim_distance]. first [reflexivity | lra]. Qed.
Lemma d_A21_1041g : get_distance (set_distance A21_c A21_e A21_lo A21_hi sim_init (2403594005990779 / 70368744177664)) = (2403594005990779 / 70368744177664).
Proof. cbn [get_distance set_distance sim_distance]. first [reflexivity | lra]. Qed.
Lemma d_A21_1049g : get_distance (set_distance A21_c A21_e A21_lo A21_hi sim_init (5524694093059221 / 70368744177664)) = (5524694093059221 / 70368744177664).
Proof. cbn [get_distance set_distance sim_distance]. first [reflexivity | lra]. Qed.
Lemma d_A21_1057g : get_distance (set_distance A21_c A21_e A21_lo A21_hi sim_init (1340683274784627 / 35184372088832)) = (1340683274784627 / 35184372088832).
Proof. cbn [get_distance set_distance sim_distance]. first [reflexivity | lra]. Qed.
Lemma d_A21_1065g : get_distance (set_distance A21_c A21_e A21_lo A21_hi sim_init (1210998915405333 / 17592186044416)) = (1210998915405333 / 17592186044416).
Proof. cbn [get_distance set_distance sim_distance]. first [reflexivity | lra]. Qed.
Lemma d_A21_1073g : get_distance (set_distance A21_c A21_e A21_lo A21_hi sim_init (1076005550198161 / 140737488355328)) = (1076005550198161 / 140737488355328).
Proof. cbn [get_distance set_distance sim_distance]. first [reflexivity | lra]. Qed.
Lemma d_A21_1081g : get_distance (set_distance A21_c A21_e A21_lo A21_hi sim_init (56 / 1)) = (56 / 1).
Proof. cbn [get_distance set_distance sim_distance]. first [reflexivity | lra]. Qed.
Lemma d_A21_1089g : get_distance (set_distance A21_c A21_e A21_lo A21_hi sim_init (7366874606948521 / 281474976710656)) = (7366874606948521 / 281474976710656).
Proof. cbn [get_distance set_distance sim_distance]. first [reflexivity | lra]. Qed.
Lemma d_A21_1097g : get_distance (set_distance A21_c A21_e A21_lo A21_hi sim_init (696554364391019 / 8796093022208)) = (696554364391019 / 8796093022208).
Proof. cbn [get_distance set_distance sim_distance]. first [reflexivity | lra]. Qed.
Lemma d_A21_1105g : get_distance (set_distance A21_c A21_e A21_lo A21_hi sim_init (413794049856595 / 17592186044416)) = (413794049856595 / 17592186044416).
Proof. cbn [get_distance set_distance sim_distance]. first [reflexivity | lra]. Qed.
Lemma d_A21_1113g : get_distance (set_distance A21_c A21_e A21_lo A21_hi sim_init (2794433771677021 / 562949953421312)) = (2794433771677021 / 562949953421312).
Proof. cbn [get_distance set_distance sim_distance]. first [reflexivity | lra]. Qed.
Lemma d_A21_1121g : get_distance (set_distance A21_c A21_e A21_lo A21_hi sim_init (5271573236816921 / 70368744177664)) = (5271573236816921 / 70368744177664).
Proof. cbn [get_distance set_distance sim_distance]. first [reflexivity | lra]. Qed.
Lemma d_A21_1129g : get_distance (set_distance A21_c A21_e A21_lo A21_hi sim_init (8197665320868627 / 140737488355328)) = (8197665320868627 / 140737488355328).
Proof. cbn [get_distance set_distance sim_distance]. first [reflexivity | lra]. Qed.
Lemma d_A21_1137g : get_distance (set_distance A21_c A21_e A21_lo A21_hi sim_init (1060517379752297 / 140737488355328)) = (1060517379752297 / 140737488355328).
Proof. cbn [get_distance set_distance sim_distance]. first [reflexivity | lra]. Qed.
Lemma d_A21_1145g : get_distance (set_distance A21_c A21_e A21_lo A21_hi sim_init (5394601197157433 / 70368744177664)) = (5394601197157433 / 70368744177664).
Proof. cbn [get_distance set_distance sim_distance]. first [reflexivity | lra]. Qed.
Lemma d_A21_1153g : get_distance (set_distance A21_c A21_e A21_lo A21_hi sim_init (1512801218331235 / 281474976710656)) = (1512801218331235 / 281474976710656).
Proof. cbn [get_distance set_distance sim_distance]. first [reflexivity | lra]. Qed.
Lemma d_A21_1161g : get_distance (set_distance A21_c A21_e A21_lo A21_hi sim_init (6640465637812195 / 140737488355328)) = (6640465637812195 / 140737488355328).
Proof. cbn [get_distance set_distance sim_distance]. first [reflexivity | lra]. Qed.
Lemma d_A21_1169g : get_distance (set_distance A21_c A21_e A21_lo A21_hi sim_init (2546252900621349 / 35184372088832)) = (2546252900621349 / 35184372088832).
Proof. cbn [get_distance set_distance sim_distance]. first [reflexivity | lra]. Qed.
Lemma d_A21_1177g : get_distance (set_distance A21_c A21_e A21_lo A21_hi sim_init (1804714388659253 / 70368744177664)) = (1804714388659253 / 70368744177664).
Proof. cbn [get_distance set_distance sim_distance]. first [reflexivity | lra]. Qed.
Lemma d_A21_1185g : get_distance (set_distance A21_c A21_e A21_lo A21_hi sim_init (8732096167140975 / 562949953421312)) = (8732096167140975 / 562949953421312).
Proof. cbn [get_distance set_distance sim_distance]. first [reflexivity | lra]. Qed.
Lemma d_A21_1193g : get_distance (set_distance A21_c A21_e A21_lo A21_hi sim_init (8920653494128975 / 281474976710656)) = (8920653494128975 / 281474976710656).
Proof. cbn [get_distance set_distance sim_distance]. first [reflexivity | lra]. Qed.
Lemma d_A21_1201g : get_distance (set_distance A21_c A21_e A21_lo A21_hi sim_init (6836323874712017 / 562949953421312)) = (6836323874712017 / 562949953421312).
Proof. cbn [get_distance set_distance sim_distance]. first [reflexivity | lra]. Qed.
Lemma d_A21_1209g : get_distance (set_distance A21_c A21_e A21_lo A21_hi sim_init (8126658222210809 / 562949953421312)) = (8126658222210809 / 562949953421312).
Proof. cbn [get_distance set_distance sim_distance]. first [reflexivity | lra]. Qed.
Lemma d_A21_1217g : get_distance (set_distance A21_c A21_e A21_lo A21_hi sim_init (332690032758281 / 8796093022208)) = (332690032758281 / 8796093022208).
Proof. cbn [get_distance set_distance sim_distance]. first [reflexivity | lra]. Qed.
Lemma d_A21_1225g : get_distance (set_distance A21_c A21_e A21_lo A21_hi sim_init (335886015383283 / 4398046511104)) = (335886015383283 / 4398046511104).
Proof. cbn [get_distance set_distance sim_distance]. first [reflexivity | lra]. Qed.
Lemma d_A21_1233g : get_distance (set_distance A21_c A21_e A21_lo A21_hi sim_init (4198861343185947 / 281474976710656)) = (4198861343185947 / 281474976710656).
Proof. cbn [get_distance set_distance sim_distance]. first [reflexivity | lra]. Qed.
Lemma d_A21_1241g : get_distance (set_distance A21_c A21_e A21_lo A21_hi sim_init (5191322764573153 / 70368744177664)) = (5191322764573153 / 70368744177664).
Proof. cbn [get_distance set_distance sim_distance]. first [reflexivity | lra]. Qed.
Lemma d_A21_1249g : get_distance (set_distance A21_c A21_e A21_lo A21_hi sim_init (3202552447216895 / 70368744177664)) = (3202552447216895 / 70368744177664).
Proof. cbn [get_distance set_distance sim_distance]. first [reflexivity | lra]. Qed.
Lemma d_A21_1257g : get_distance (set_distance A21_c A21_e A21_lo A21_hi sim_init (7337660275309319 / 35184372088832)) = (7337660275309319 / 35184372088832).
Proof. cbn [get_distance set_distance sim_distance]. first [reflexivity | lra]. Qed.
Lemma d_A21_1265g : get_distance (set_distance A21_c A21_e A21_lo A21_hi sim_init (8348449825454567 / 281474976710656)) = (8348449825454567 / 281474976710656).
Proof. cbn [get_distance set_distance sim_distance]. first [reflexivity | lra]. Qed.
Lemma d_A21_1273g : get_distance (set_distance A21_c A21_e A21_lo A21_hi sim_init (327837720317323 / 8796093022208)) = (327837720317323 / 8796093022208).
Proof. cbn [get_distance set_distance sim_distance]. first [reflexivity | lra]. Qed.
Lemma d_A21_1281g : get_distance (set_distance A21_c A21_e A21_lo A21_hi sim_init (3029958368567157 / 562949953421312)) = (3029958368567157 / 562949953421312).
Proof. cbn [get_distance set_distance sim_distance]. first [reflexivity | lra]. Qed.
Lemma d_A21_1289g : get_distance (set_distance A21_c A21_e A21_lo A21_hi sim_init (1756552551190137 / 562949953421312)) = (1756552551190137 / 562949953421312).
Proof. cbn [get_distance set_distance sim_distance]. first [reflexivity | lra]. Qed.
Lemma d_A21_1297g : get_distance (set_distance A21_c A21_e A21_lo A21_hi sim_init (5454282152152183 / 140737488355328)) = (5454282152152183 / 140737488355328).
Proof. cbn [get_distance set_distance sim_distance]. first [reflexivity | lra]. Qed.
Lemma d_A21_1305g : get_distance (set_distance A21_c A21_e A21_lo A21_hi sim_init (7080899085613269 / 70368744177664)) = (7080899085613269 / 70368744177664).
Proof. cbn [get_distance set_distance sim_distance]. first [reflexivity | lra]. Qed.
Lemma d_A21_1313g : get_distance (set_distance A21_c A21_e A21_lo A21_hi sim_init (4502891951355121 / 70368744177664)) = (4502891951355121 / 70368744177664).
Proof. cbn [get_distance set_distance sim_distance]. first [reflexivity | lra]. Qed.
Lemma d_A21_1321g : get_distance (set_distance A21_c A21_e A21_lo A21_hi sim_init (6085636536230265 / 140737488355328)) = (6085636536230265 / 140737488355328).
Proof. cbn [get_distance set_distance sim_distance]. first [reflexivity | lra]. Qed.
Lemma d_A21_1329g : get_distance (set_distance A21_c A21_e A21_lo A21_hi sim_init (6055285465335671 / 140737488355328)) = (6055285465335671 / 140737488355328).
Proof. cbn [get_distance set_distance sim_distance]. first [reflexivity | lra]. Qed.
Lemma r_A41_864 : rio_reads A41_c A41_e A41_lo A41_hi floor_volts ctol (Build_rio (Fin (1 / 202402253307310618352495346718917307049556649764142118356901358027430339567995346891960383701437124495187077864316811911389808737385793476867013399940738509921517424276566361364466907742093216341239767678472745068562007483424692698618103355649159556340810056512358769552333414615230502532186327508646006263307707741093494784)) (Fin (21 / 4)) (Fin (3715469692580659 / 1125899906842624)) (Fin (6 / 1)) (Fin (12 / 1)) true true true ((Fin (0 / 1)) :: (Fin (0 / 1)) :: (Fin (0 / 1)) :: (Fin (0 / 1)) :: (Fin (27 / 4)) :: (Fin (45 / 1)) :: nil)) (35 / 1).
Proof. apply (A41_rio_fin _ (1 / 202402253307310618352495346718917307049556649764142118356901358027430339567995346891960383701437124495187077864316811911389808737385793476867013399940738509921517424276566361364466907742093216341239767678472745068562007483424692698618103355649159556340810056512358769552333414615230502532186327508646006263307707741093494784)); [reflexivity | apply (A41_q_floor 1 202402253307310618352495346718917307049556649764142118356901358027430339567995346891960383701437124495187077864316811911389808737385793476867013399940738509921517424276566361364466907742093216341239767678472745068562007483424692698618103355649159556340810056512358769552333414615230502532186327508646006263307707741093494784 35 1); vm_compute; reflexivity]. Qed.
Lemma r_A41_1253 : rio_reads A41_c A41_e A41_lo A41_hi floor_volts ctol (Build_rio (Fin (4851010016459889 / 37778931862957161709568)) (Fin (5902958103587057 / 590295810358705651712)) (Fin (3715469692580659 / 1125899906842624)) (Fin (6 / 1)) (Fin (637 / 64)) true false true ((Fin (1593 / 1024)) :: (Fin (197 / 256)) :: (Fin (1003 / 1024)) :: (Fin (94309 / 512)) :: (Fin (6795 / 1024)) :: (Fin (32679 / 512)) :: nil)) (35 / 1).
Proof. apply (A41_rio_fin _ (4851010016459889 / 37778931862957161709568)); [reflexivity | apply (A41_q_floor 4851010016459889 37778931862957161709568 35 1); vm_compute; reflexivity]. Qed.
Lemma d_A41_1338g : get_distance (set_distance A41_c A41_e A41_lo A41_hi sim_init (100 / 1)) = (100 / 1).
Proof. cbn [get_distance set_distance sim_distance]. first [reflexivity | lra]. Qed.
Lemma d_A41_1346g : get_distance (set_distance A41_c A41_e A41_lo A41_hi sim_init (150 / 1)) = (150 / 1).
Proof. cbn [get_distance set_distance sim_distance]. first [reflexivity | lra]. Qed.
Lemma d_A41_1354g : get_distance (set_distance A41_c A41_e A41_lo A41_hi sim_init ((-1) / 1)) = ((-1) / 1).
Proof. cbn [get_distance set_distance sim_distance]. first [reflexivity | lra]. Qed.
Lemma d_A41_1362g : get_distance (set_distance A41_c A41_e A41_lo A41_hi sim_init (10 / 1)) = (10 / 1).
Proof. cbn [get_distance set_distance sim_distance]. first [reflexivity | lra]. Qed.
Lemma d_A41_1370g : get_distance (set_distance A41_c A41_e A41_lo A41_hi sim_init (1000000 / 1)) = (1000000 / 1).
Proof. cbn [get_distance set_distance sim_distance]. first [reflexivity | lra]. Qed.
Lemma d_A41_1379g : get_distance (set_distance A41_c A41_e A41_lo A41_hi sim_init (4925812092436479 / 140737488355328)) = (4925812092436479 / 140737488355328).
Proof. cbn [get_distance set_distance sim_distance]. first [reflexivity | lra]. Qed.
Lemma d_A41_1387g : get_distance (set_distance A41_c A41_e A41_lo A41_hi sim_init (4 / 1)) = (4 / 1).
Proof. cbn [get_distance set_distance sim_distance]. first [reflexivity | lra]. Qed.
Lemma d_A41_1395g : get_distance (set_distance A41_c A41_e A41_lo A41_hi sim_init (8551045664594597 / 562949953421312)) = (8551045664594597 / 562949953421312).
Proof. cbn [get_distance set_distance sim_distance]. first [reflexivity | lra]. Qed.
Lemma d_A41_1403g : get_distance (set_distance A41_c A41_e A41_lo A41_hi sim_init (349755829301119 / 35184372088832)) = (349755829301119 / 35184372088832).
Proof. cbn [get_distance set_distance sim_distance]. first [reflexivity | lra]. Qed.
Lemma d_A41_1411g : get_distance (set_distance A41_c A41_e A41_lo A41_hi sim_init (37520180709899 / 1099511627776)) = (37520180709899 / 1099511627776).
Proof. cbn [get_distance set_distance sim_distance]. first [reflexivity | lra]. Qed.
Lemma d_A41_1419g : get_distance (set_distance A41_c A41_e A41_lo A41_hi sim_init (821111805911741 / 35184372088832)) = (821111805911741 / 35184372088832).
Proof. cbn [get_distance set_distance sim_distance]. first [reflexivity | lra]. Qed.
Lemma d_A41_1427g : get_distance (set_distance A41_c A41_e A41_lo A41_hi sim_init (2235084303194081 / 70368744177664)) = (2235084303194081 / 70368744177664).
Proof. cbn [get_distance set_distance sim_distance]. first [reflexivity | lra]. Qed.
Lemma d_A41_1435g : get_distance (set_distance A41_c A41_e A41_lo A41_hi sim_init (2372836452621061 / 140737488355328)) = (2372836452621061 / 140737488355328).
Proof. cbn [get_distance set_distance sim_distance]. first [reflexivity | lra]. Qed.
Lemma d_A41_1443g : get_distance (set_distance A41_c A41_e A41_lo A41_hi sim_init (2679404888254723 / 281474976710656)) = (2679404888254723 / 281474976710656).
Proof. cbn [get_distance set_distance sim_distance]. first [reflexivity | lra]. Qed.
Lemma d_A41_1451g : get_distance (set_distance A41_c A41_e A41_lo A41_hi sim_init (3143833657315641 / 140737488355328)) = (3143833657315641 / 140737488355328).
Proof. cbn [get_distance set_distance sim_distance]. first [reflexivity | lra]. Qed.
Lemma d_A41_1459g : get_distance (set_distance A41_c A41_e A41_lo A41_hi sim_init (3089002913741371 / 72057594037927936)) = (3089002913741371 / 72057594037927936).
Proof. cbn [get_distance set_distance sim_distance]. first [reflexivity | lra]. Qed.
Lemma d_A41_1467g : get_distance (set_distance A41_c A41_e A41_lo A41_hi sim_init (1151500366140089 / 35184372088832)) = (1151500366140089 / 35184372088832).
Proof. cbn [get_distance set_distance sim_distance]. first [reflexivity | lra]. Qed.
Lemma d_A41_1475g : get_distance (set_distance A41_c A41_e A41_lo A41_hi sim_init (7386800390257253 / 281474976710656)) = (7386800390257253 / 281474976710656).
Proof. cbn [get_distance set_distance sim_distance]. first [reflexivity | lra]. Qed.
Lemma d_A41_1483g : get_distance (set_distance A41_c A41_e A41_lo A41_hi sim_init (2550901152344571 / 281474976710656)) = (2550901152344571 / 281474976710656).
Proof. cbn [get_distance set_distance sim_distance]. first [reflexivity | lra]. Qed.
Lemma d_A41_1491g : get_distance (set_distance A41_c A41_e A41_lo A41_hi sim_init (3325474485631095 / 281474976710656)) = (3325474485631095 / 281474976710656).
Proof. cbn [get_distance set_distance sim_distance]. first [reflexivity | lra]. Qed.
Lemma d_A41_1499g : get_distance (set_distance A41_c A41_e A41_lo A41_hi sim_init (3608200080998225 / 70368744177664)) = (3608200080998225 / 70368744177664).
Proof. cbn [get_distance set_distance sim_distance]. first [reflexivity | lra]. Qed.
Lemma d_A41_1507g : get_distance (set_distance A41_c A41_e A41_lo A41_hi sim_init (4062839306111591 / 70368744177664)) = (4062839306111591 / 70368744177664).
Proof. cbn [get_distance set_distance sim_distance]. first [reflexivity | lra]. Qed.
Lemma d_A41_1515g : get_distance (set_distance A41_c A41_e A41_lo A41_hi sim_init (8213717994310739 / 1125899906842624)) = (8213717994310739 / 1125899906842624).
Proof. cbn [get_distance set_distance sim_distance]. first [reflexivity | lra]. Qed.
Lemma d_A41_1523g : get_distance (set_distance A41_c A41_e A41_lo A41_hi sim_init (4432125173705589 / 140737488355328)) = (4432125173705589 / 140737488355328).
Proof. cbn [get_distance set_distance sim_distance]. first [reflexivity | lra]. Qed.
Lemma d_A41_1531g : get_distance (set_distance A41_c A41_e A41_lo A41_hi sim_init (2817845700419201 / 35184372088832)) = (2817845700419201 / 35184372088832).
Proof. cbn [get_distance set_distance sim_distance]. first [reflexivity | lra]. Qed.
Lemma d_A41_1539g : get_distance (set_distance A41_c A41_e A41_lo A41_hi sim_init (3042895717953077 / 140737488355328)) = (3042895717953077 / 140737488355328).
Proof. cbn [get_distance set_distance sim_distance]. first [reflexivity | lra]. Qed.
Lemma d_A41_1547g : get_distance (set_distance A41_c A41_e A41_lo A41_hi sim_init (24 / 1)) = (24 / 1).
Proof. cbn [get_distance set_distance sim_distance]. first [reflexivity | lra]. Qed.
Lemma d_A41_1555g : get_distance (set_distance A41_c A41_e A41_lo A41_hi sim_init (6451599825685819 / 70368744177664)) = (6451599825685819 / 70368744177664).
Proof. cbn [get_distance set_distance sim_distance]. first [reflexivity | lra]. Qed.
Lemma d_A41_1563g : get_distance (set_distance A41_c A41_e A41_lo A41_hi sim_init (5502508003046197 / 281474976710656)) = (5502508003046197 / 281474976710656).
Proof. cbn [get_distance set_distance sim_distance]. first [reflexivity | lra]. Qed.
Lemma d_A41_1571g : get_distance (set_distance A41_c A41_e A41_lo A41_hi sim_init (47815505580843 / 35184372088832)) = (47815505580843 / 35184372088832).
Proof. cbn [get_distance set_distance sim_distance]. first [reflexivity | lra]. Qed.
Lemma d_A41_1579g : get_distance (set_distance A41_c A41_e A41_lo A41_hi sim_init (4828138902863749 / 140737488355328)) = (4828138902863749 / 140737488355328).
Proof. cbn [get_distance set_distance sim_distance]. first [reflexivity | lra]. Qed.
Lemma d_A41_1587g : get_distance (set_distance A41_c A41_e A41_lo A41_hi sim_init (1184683648326769 / 562949953421312)) = (1184683648326769 / 562949953421312).
Proof. cbn [get_distance set_distance sim_distance]. first [reflexivity | lra]. Qed.
Lemma d_A41_1595g : get_distance (set_distance A41_c A41_e A41_lo A41_hi sim_init (6232080139988867 / 281474976710656)) = (6232080139988867 / 281474976710656).
Proof. cbn [get_distance set_distance sim_distance]. first [reflexivity | lra]. Qed.
Lemma d_A41_1603g : get_distance (set_distance A41_c A41_e A41_lo A41_hi sim_init (4362414543522427 / 281474976710656)) = (4362414543522427 / 281474976710656).
Proof. cbn [get_distance set_distance sim_distance]. first [reflexivity | lra]. Qed.
Lemma d_A41_1611g : get_distance (set_distance A41_c A41_e A41_lo A41_hi sim_init (4251501907635021 / 140737488355328)) = (4251501907635021 / 140737488355328).
Proof. cbn [get_distance set_distance sim_distance]. first [reflexivity | lra]. Qed.
Lemma d_A41_1619g : get_distance (set_distance A41_c A41_e A41_lo A41_hi sim_init (6042811209732495 / 281474976710656)) = (6042811209732495 / 281474976710656).
Proof. cbn [get_distance set_distance sim_distance]. first [reflexivity | lra]. Qed.
Lemma d_A41_1627g : get_distance (set_distance A41_c A41_e A41_lo A41_hi sim_init (2340244350880711 / 2251799813685248)) = (2340244350880711 / 2251799813685248).
Proof. cbn [get_distance set_distance sim_distance]. first [reflexivity | lra]. Qed.
Lemma d_A41_1635g : get_distance (set_distance A41_c A41_e A41_lo A41_hi sim_init (7741339238691227 / 281474976710656)) = (7741339238691227 / 281474976710656).
Proof. cbn [get_distance set_distance sim_distance]. first [reflexivity | lra]. Qed.
Lemma d_A41_1643g : get_distance (set_distance A41_c A41_e A41_lo A41_hi sim_init (4086126166301497 / 281474976710656)) = (4086126166301497 / 281474976710656).
Proof. cbn [get_distance set_distance sim_distance]. first [reflexivity | lra]. Qed.
Lemma d_A41_1651g : get_distance (set_distance A41_c A41_e A41_lo A41_hi sim_init (971584565204015 / 70368744177664)) = (971584565204015 / 70368744177664).
Proof. cbn [get_distance set_distance sim_distance]. first [reflexivity | lra]. Qed.
Lemma d_A41_1659g : get_distance (set_distance A41_c A41_e A41_lo A41_hi sim_init (2359796245414705 / 70368744177664)) = (2359796245414705 / 70368744177664).
Proof. cbn [get_distance set_distance sim_distance]. first [reflexivity | lra]. Qed.
Lemma d_A41_1667g : get_distance (set_distance A41_c A41_e A41_lo A41_hi sim_init (1656929826301449 / 1125899906842624)) = (1656929826301449 / 1125899906842624).
Proof. cbn [get_distance set_distance sim_distance]. first [reflexivity | lra]. Qed.
Lemma d_A41_1675g : get_distance (set_distance A41_c A41_e A41_lo A41_hi sim_init (1043618627453593 / 35184372088832)) = (1043618627453593 / 35184372088832).
Proof. cbn [get_distance set_distance sim_distance]. first [reflexivity | lra]. Qed.
Lemma d_A41_1683g : get_distance (set_distance A41_c A41_e A41_lo A41_hi sim_init (7945496063873385 / 562949953421312)) = (7945496063873385 / 562949953421312).
Proof. cbn [get_distance set_distance sim_distance]. first [reflexivity | lra]. Qed.
Lemma d_A41_1691g : get_distance (set_distance A41_c A41_e A41_lo A41_hi sim_init (2196932306293507 / 70368744177664)) = (2196932306293507 / 70368744177664).
Proof. cbn [get_distance set_distance sim_distance]. first [reflexivity | lra]. Qed.
Lemma d_A41_1699g : get_distance (set_distance A41_c A41_e A41_lo A41_hi sim_init (8980743948860953 / 281474976710656)) = (8980743948860953 / 281474976710656).
Proof. cbn [get_distance set_distance sim_distance]. first [reflexivity | lra]. Qed.
Lemma d_A41_1707g : get_distance (set_distance A41_c A41_e A41_lo A41_hi sim_init (6558399949388549 / 281474976710656)) = (6558399949388549 / 281474976710656).
Proof. cbn [get_distance set_distance sim_distance]. first [reflexivity | lra]. Qed.
Lemma d_A41_1715g : get_distance (set_distance A41_c A41_e A41_lo A41_hi sim_init (3875592363107153 / 562949953421312)) = (3875592363107153 / 562949953421312).
Proof. cbn [get_distance set_distance sim_distance]. first [reflexivity | lra]. Qed.
Lemma d_A41_1723g : get_distance (set_distance A41_c A41_e A41_lo A41_hi sim_init (2483708110064983 / 35184372088832)) = (2483708110064983 / 35184372088832).
Proof. cbn [get_distance set_distance sim_distance]. first [reflexivity | lra]. Qed.
Lemma d_A41_1731g : get_distance (set_distance A41_c A41_e A41_lo A41_hi sim_init (3020960367848679 / 140737488355328)) = (3020960367848679 / 140737488355328).
Proof. cbn [get_distance set_distance sim_distance]. first [reflexivity | lra]. Qed.
Lemma d_A41_1739g : get_distance (set_distance A41_c A41_e A41_lo A41_hi sim_init (5607454211355159 / 562949953421312)) = (5607454211355159 / 562949953421312).
Proof. cbn [get_distance set_distance sim_distance]. first [reflexivity | lra]. Qed.
Lemma d_A41_1747g : get_distance (set_distance A41_c A41_e A41_lo A41_hi sim_init (275065146759329 / 8796093022208)) = (275065146759329 / 8796093022208).
Proof. cbn [get_distance set_distance sim_distance]. first [reflexivity | lra]. Qed.
Lemma d_A41_1755g : get_distance (set_distance A41_c A41_e A41_lo A41_hi sim_init (6737328865483487 / 281474976710656)) = (6737328865483487 / 281474976710656).
Proof. cbn [get_distance set_distance sim_distance]. first [reflexivity | lra]. Qed.
Lemma d_A41_1763g : get_distance (set_distance A41_c A41_e A41_lo A41_hi sim_init (6308584266862409 / 140737488355328)) = (6308584266862409 / 140737488355328).
Proof. cbn [get_distance set_distance sim_distance]. first [reflexivity | lra]. Qed.
Lemma d_A41_1771g : get_distance (set_distance A41_c A41_e A41_lo A41_hi sim_init (2706979683656755 / 281474976710656)) = (2706979683656755 / 281474976710656).
Proof. cbn [get_distance set_distance sim_distance]. first [reflexivity | lra]. Qed.
Lemma d_A41_1779g : get_distance (set_distance A41_c A41_e A41_lo A41_hi sim_init (4349003134890213 / 562949953421312)) = (4349003134890213 / 562949953421312).
Proof. cbn [get_distance set_distance sim_distance]. first [reflexivity | lra]. Qed.
Lemma d_A41_1787g : get_distance (set_distance A41_c A41_e A41_lo A41_hi sim_init (4911129960001051 / 562949953421312)) = (4911129960001051 / 562949953421312).
Proof. cbn [get_distance set_distance sim_distance]. first [reflexivity | lra]. Qed.
Lemma d_A41_1795g : get_distance (set_distance A41_c A41_e A41_lo A41_hi sim_init (269613160388107 / 17592186044416)) = (269613160388107 / 17592186044416).
Proof. cbn [get_distance set_distance sim_distance]. first [reflexivity | lra]. Qed.
Lemma d_A41_1803g : get_distance (set_distance A41_c A41_e A41_lo A41_hi sim_init (8320073279846365 / 281474976710656)) = (8320073279846365 / 281474976710656).
Proof. cbn [get_distance set_distance sim_distance]. first [reflexivity | lra]. Qed.
Lemma d_A41_1811g : get_distance (set_distance A41_c A41_e A41_lo A41_hi sim_init (2933286205947147 / 36028797018963968)) = (2933286205947147 / 36028797018963968).
Proof. cbn [get_distance set_distance sim_distance]. first [reflexivity | lra]. Qed.
Lemma d_A41_1819g : get_distance (set_distance A41_c A41_e A41_lo A41_hi sim_init (5484247862703971 / 1125899906842624)) = (5484247862703971 / 1125899906842624).
Proof. cbn [get_distance set_distance sim_distance]. first [reflexivity | lra]. Qed.
Lemma d_A41_1827g : get_distance (set_distance A41_c A41_e A41_lo A41_hi sim_init (7388164456412603 / 2199023255552)) = (7388164456412603 / 2199023255552).
Proof. cbn [get_distance set_distance sim_distance]. first [reflexivity | lra]. Qed.
Lemma d_A41_1835g : get_distance (set_distance A41_c A41_e A41_lo A41_hi sim_init ((-1182271425622489) / 1125899906842624)) = ((-1182271425622489) / 1125899906842624).
Proof. cbn [get_distance set_distance sim_distance]. first [reflexivity | lra]. Qed.
Lemma d_A41_1843g : get_distance (set_distance A41_c A41_e A41_lo A41_hi sim_init (6144275926960827 / 1125899906842624)) = (6144275926960827 / 1125899906842624).
Proof. cbn [get_distance set_distance sim_distance]. first [reflexivity | lra]. Qed.
Lemma d_A41_1851g : get_distance (set_distance A41_c A41_e A41_lo A41_hi sim_init (1477388273021961 / 9007199254740992)) = (1477388273021961 / 9007199254740992).
Proof. cbn [get_distance set_distance sim_distance]. first [reflexivity | lra]. Qed.
Lemma d_A41_1859g : get_distance (set_distance A41_c A41_e A41_lo A41_hi sim_init (2562169361477903 / 140737488355328)) = (2562169361477903 / 140737488355328).
Proof. cbn [get_distance set_distance sim_distance]. first [reflexivity | lra]. Qed.
Lemma d_A41_1867g : get_distance (set_distance A41_c A41_e A41_lo A41_hi sim_init (2509466479465151 / 35184372088832)) = (2509466479465151 / 35184372088832).
Proof. cbn [get_distance set_distance sim_distance]. first [reflexivity | lra]. Qed.
Lemma d_A41_1875g : get_distance (set_distance A41_c A41_e A41_lo A41_hi sim_init (5890205355247343 / 1125899906842624)) = (5890205355247343 / 1125899906842624).
Proof. cbn [get_distance set_distance sim_distance]. first [reflexivity | lra]. Qed.
Lemma d_A41_1883g : get_distance (set_distance A41_c A41_e A41_lo A41_hi sim_init (2245892443116261 / 140737488355328)) = (2245892443116261 / 140737488355328).
Proof. cbn [get_distance set_distance sim_distance]. first [reflexivity | lra]. Qed.
Lemma d_A41_1891g : get_distance (set_distance A41_c A41_e A41_lo A41_hi sim_init (1608382029020161 / 281474976710656)) = (1608382029020161 / 281474976710656).
Proof. cbn [get_distance set_distance sim_distance]. first [reflexivity | lra]. Qed.
Lemma d_A41_1899g : get_distance (set_distance A41_c A41_e A41_lo A41_hi sim_init (7017937320443049 / 281474976710656)) = (7017937320443049 / 281474976710656).
Proof. cbn [get_distance set_distance sim_distance]. first [reflexivity | lra]. Qed.
Lemma d_A41_1907g : get_distance (set_distance A41_c A41_e A41_lo A41_hi sim_init (19 / 1)) = (19 / 1).
Proof. cbn [get_distance set_distance sim_distance]. first [reflexivity | lra]. Qed.
Lemma d_A41_1915g : get_distance (set_distance A41_c A41_e A41_lo A41_hi sim_init (3938691552763191 / 281474976710656)) = (3938691552763191 / 281474976710656).
Proof. cbn [get_distance set_distance sim_distance]. first [reflexivity | lra]. Qed.
Lemma d_A41_1923g : get_distance (set_distance A41_c A41_e A41_lo A41_hi sim_init ((-1190719779404471) / 562949953421312)) = ((-1190719779404471) / 562949953421312).
Proof. cbn [get_distance set_distance sim_distance]. first [reflexivity | lra]. Qed.
Lemma d_A41_1931g : get_distance (set_distance A41_c A41_e A41_lo A41_hi sim_init (1585084459815097 / 70368744177664)) = (1585084459815097 / 70368744177664).
Proof. cbn [get_distance set_distance sim_distance]. first [reflexivity | lra]. Qed.
Lemma d_A41_1939g : get_distance (set_distance A41_c A41_e A41_lo A41_hi sim_init (3593091609243271 / 281474976710656)) = (3593091609243271 / 281474976710656).
Proof. cbn [get_distance set_distance sim_distance]. first [reflexivity | lra]. Qed.
Lemma d_A41_1947g : get_distance (set_distance A41_c A41_e A41_lo A41_hi sim_init (5274055785461131 / 281474976710656)) = (5274055785461131 / 281474976710656).
Proof. cbn [get_distance set_distance sim_distance]. first [reflexivity | lra]. Qed.
Lemma d_A41_1955g : get_distance (set_distance A41_c A41_e A41_lo A41_hi sim_init (12 / 1)) = (12 / 1).
Proof. cbn [get_distance set_distance sim_distance]. first [reflexivity | lra]. Qed.
Lemma d_A41_1963g : get_distance (set_distance A41_c A41_e A41_lo A41_hi sim_init (10 / 1)) = (10 / 1).
Proof. cbn [get_distance set_distance sim_distance]. first [reflexivity | lra]. Qed.
Lemma d_A41_1971g : get_distance (set_distance A41_c A41_e A41_lo A41_hi sim_init (2252818177340739 / 140737488355328)) = (2252818177340739 / 140737488355328).
Proof. cbn [get_distance set_distance sim_distance]. first [reflexivity | lra]. Qed.
Lemma d_A41_1979g : get_distance (set_distance A41_c A41_e A41_lo A41_hi sim_init (4636072205682501 / 140737488355328)) = (4636072205682501 / 140737488355328).
Proof. cbn [get_distance set_distance sim_distance]. first [reflexivity | lra]. Qed.
Lemma d_A41_1987g : get_distance (set_distance A41_c A41_e A41_lo A41_hi sim_init (2445301579153141 / 281474976710656)) = (2445301579153141 / 281474976710656).
Proof. cbn [get_distance set_distance sim_distance]. first [reflexivity | lra]. Qed.
Lemma d_A41_1995g : get_distance (set_distance A41_c A41_e A41_lo A41_hi sim_init (2415864317870359 / 35184372088832)) = (2415864317870359 / 35184372088832).
Proof. cbn [get_distance set_distance sim_distance]. first [reflexivity | lra]. Qed.
Check d_A41_1995g.
