From Coq Require Import Reals Lra.
From Interval Require Import Tactic.
From RV Require Import IR.Model IR.Proofs.
Open Scope R_scope.
Lemma r_A02_29 : rio_reads A02_c A02_e A02_lo A02_hi floor_volts ctol (Build_rio (Fin (7378697629483821 / 73786976294838206464)) (Fin (5 / 1)) (Fin (8106479329266893 / 2251799813685248)) (Fin (6 / 1)) (Fin (12 / 1)) true true true ((Fin (0 / 1)) :: (Fin (0 / 1)) :: (Fin (0 / 1)) :: (Fin (0 / 1)) :: (Fin (27 / 4)) :: (Fin (45 / 1)) :: nil)) (145 / 1).
Proof. apply (A02_rio_fin _ (7378697629483821 / 73786976294838206464)); [reflexivity | apply (A02_q_hi 7378697629483821 73786976294838206464 145 1); [vm_compute; reflexivity | unfold fr, ctol, A02_hi, A02_c, A02_e; interval with (i_prec 80)]]. Qed.
Lemma r_A02_47 : rio_reads A02_c A02_e A02_lo A02_hi floor_volts ctol (Build_rio (Fin (8316785357551685 / 18014398509481984)) (Fin (5 / 1)) (Fin (3715469692580659 / 1125899906842624)) (Fin (6 / 1)) (Fin (12 / 1)) true true true ((Fin (0 / 1)) :: (Fin (0 / 1)) :: (Fin (2476979795053773 / 1125899906842624)) :: (Fin (0 / 1)) :: (Fin (27 / 4)) :: (Fin (45 / 1)) :: nil)) (1274042170191985 / 8796093022208).
Proof. apply (A02_rio_fin _ (8316785357551685 / 18014398509481984)); [reflexivity | apply (A02_q_mid 8316785357551685 18014398509481984 1274042170191985 8796093022208); [vm_compute; reflexivity | unfold fr, close, ctol, A02_c, A02_e; interval with (i_prec 80)]]. Qed.
Lemma r_A02_63 : rio_reads A02_c A02_e A02_lo A02_hi floor_volts ctol (Build_rio (Fin (5205 / 2048)) NInf NInf NInf NInf false true true ((Fin (0 / 1)) :: (Fin (0 / 1)) :: (Fin (0 / 1)) :: (Fin (0 / 1)) :: (Fin (27 / 4)) :: (Fin (45 / 1)) :: nil)) (45 / 2).
Proof. apply (A02_rio_fin _ (5205 / 2048)); [reflexivity | apply (A02_q_lo 5205 2048 45 2); [vm_compute; reflexivity | unfold fr, ctol, A02_lo, A02_c, A02_e; interval with (i_prec 80)]]. Qed.
Lemma r_A02_79 : rio_reads A02_c A02_e A02_lo A02_hi floor_volts ctol (Build_rio (Fin (15 / 64)) (Fin (4691 / 1024)) (Fin (877 / 256)) (Fin (5869 / 1024)) (Fin (13011 / 1024)) true true true ((Fin (1993 / 1024)) :: (Fin (849 / 1024)) :: (Fin (1399 / 1024)) :: (Fin (75455 / 512)) :: (Fin (5641 / 1024)) :: (Fin (17003 / 512)) :: nil)) (145 / 1).
Proof. apply (A02_rio_fin _ (15 / 64)); [reflexivity | apply (A02_q_hi 15 64 145 1); [vm_compute; reflexivity | unfold fr, ctol, A02_hi, A02_c, A02_e; interval with (i_prec 80)]]. Qed.
Lemma r_A02_95 : rio_reads A02_c A02_e A02_lo A02_hi floor_volts ctol (Build_rio (Fin (35 / 64)) (Fin (5 / 1)) (Fin (3715469692580659 / 1125899906842624)) (Fin (6 / 1)) (Fin (12 / 1)) true true true ((Fin (0 / 1)) :: (Fin (0 / 1)) :: (Fin (0 / 1)) :: (Fin (0 / 1)) :: (Fin (27 / 4)) :: (Fin (45 / 1)) :: nil)) (8471389134873299 / 70368744177664).
Proof. apply (A02_rio_fin _ (35 / 64)); [reflexivity | apply (A02_q_mid 35 64 8471389134873299 70368744177664); [vm_compute; reflexivity | unfold fr, close, ctol, A02_c, A02_e; interval with (i_prec 80)]]. Qed.
Lemma r_A02_111 : rio_reads A02_c A02_e A02_lo A02_hi floor_volts ctol (Build_rio (Fin (55 / 64)) (Fin (5 / 1)) (Fin (3195 / 1024)) (Fin (6 / 1)) (Fin (6633 / 512)) true true true ((Fin (827 / 512)) :: (Fin (23 / 512)) :: (Fin (121 / 64)) :: (Fin (184145 / 1024)) :: (Fin (9105 / 1024)) :: (Fin ((-5631) / 1024)) :: nil)) (2585656823484027 / 35184372088832).
Proof. apply (A02_rio_fin _ (55 / 64)); [reflexivity | apply (A02_q_mid 55 64 2585656823484027 35184372088832); [vm_compute; reflexivity | unfold fr, close, ctol, A02_c, A02_e; interval with (i_prec 80)]]. Qed.
Lemma r_A02_127 : rio_reads A02_c A02_e A02_lo A02_hi floor_volts ctol (Build_rio (Fin (75 / 64)) (Fin (5377 / 1024)) (Fin (1627 / 512)) (Fin (5393 / 1024)) (Fin (12679 / 1024)) false true true ((Fin (109 / 1024)) :: (Fin (7 / 256)) :: (Fin (829 / 1024)) :: (Fin (86131 / 512)) :: (Fin (2189 / 512)) :: (Fin ((-63) / 4)) :: nil)) (7371231181864627 / 140737488355328).
Proof. apply (A02_rio_fin _ (75 / 64)); [reflexivity | apply (A02_q_mid 75 64 7371231181864627 140737488355328); [vm_compute; reflexivity | unfold fr, close, ctol, A02_c, A02_e; interval with (i_prec 80)]]. Qed.
Lemma r_A02_143 : rio_reads A02_c A02_e A02_lo A02_hi floor_volts ctol (Build_rio (Fin (95 / 64)) (Fin (5 / 1)) (Fin (3715469692580659 / 1125899906842624)) (Fin (6 / 1)) (Fin (12 / 1)) true true true ((Fin (0 / 1)) :: (Fin (0 / 1)) :: (Fin (0 / 1)) :: (Fin (0 / 1)) :: (Fin (27 / 4)) :: (Fin (45 / 1)) :: nil)) (2847100247247487 / 70368744177664).
Proof. apply (A02_rio_fin _ (95 / 64)); [reflexivity | apply (A02_q_mid 95 64 2847100247247487 70368744177664); [vm_compute; reflexivity | unfold fr, close, ctol, A02_c, A02_e; interval with (i_prec 80)]]. Qed.
Lemma r_A02_159 : rio_reads A02_c A02_e A02_lo A02_hi floor_volts ctol (Build_rio (Fin (115 / 64)) (Fin (2459 / 512)) (Fin (0 / 1)) (Fin (0 / 1)) (Fin (13249 / 1024)) true true true ((Fin (123 / 512)) :: (Fin (529 / 1024)) :: (Fin (341 / 1024)) :: (Fin (90425 / 512)) :: (Fin (2515 / 512)) :: (Fin (5067 / 64)) :: nil)) (2310973121785271 / 70368744177664).
Proof. apply (A02_rio_fin _ (115 / 64)); [reflexivity | apply (A02_q_mid 115 64 2310973121785271 70368744177664); [vm_compute; reflexivity | unfold fr, close, ctol, A02_c, A02_e; interval with (i_prec 80)]]. Qed.
Lemma r_A02_175 : rio_reads A02_c A02_e A02_lo A02_hi floor_volts ctol (Build_rio (Fin (135 / 64)) (Fin (5251 / 1024)) (Fin (3491 / 1024)) (Fin (3175 / 512)) (Fin (169 / 16)) true true true ((Fin (591 / 512)) :: (Fin (983 / 1024)) :: (Fin (709 / 256)) :: (Fin (115849 / 1024)) :: (Fin (1467 / 256)) :: (Fin (5765 / 512)) :: nil)) (969889963341759 / 35184372088832).
Proof. apply (A02_rio_fin _ (135 / 64)); [reflexivity | apply (A02_q_mid 135 64 969889963341759 35184372088832); [vm_compute; reflexivity | unfold fr, close, ctol, A02_c, A02_e; interval with (i_prec 80)]]. Qed.
Lemma r_A02_191 : rio_reads A02_c A02_e A02_lo A02_hi floor_volts ctol (Build_rio (Fin (155 / 64)) (Fin (5 / 1)) (Fin (3715469692580659 / 1125899906842624)) (Fin (6 / 1)) (Fin (12 / 1)) true true true ((Fin (0 / 1)) :: (Fin (0 / 1)) :: (Fin (0 / 1)) :: (Fin (0 / 1)) :: (Fin (27 / 4)) :: (Fin (45 / 1)) :: nil)) (1668148547400163 / 70368744177664).
Proof. apply (A02_rio_fin _ (155 / 64)); [reflexivity | apply (A02_q_mid 155 64 1668148547400163 70368744177664); [vm_compute; reflexivity | unfold fr, close, ctol, A02_c, A02_e; interval with (i_prec 80)]]. Qed.
Lemma r_A02_207 : rio_reads A02_c A02_e A02_lo A02_hi floor_volts ctol (Build_rio (Fin (705 / 256)) (Fin (1791 / 1024)) (Fin (783 / 256)) (Fin (5481 / 1024)) (Fin (12 / 1)) true true true ((Fin (1891 / 1024)) :: (Fin (311 / 256)) :: (Fin (509 / 512)) :: (Fin (61635 / 1024)) :: (Fin (6687 / 1024)) :: (Fin (32403 / 1024)) :: nil)) (45 / 2).
Proof. apply (A02_rio_fin _ (705 / 256)); [reflexivity | apply (A02_q_lo 705 256 45 2); [vm_compute; reflexivity | unfold fr, ctol, A02_lo, A02_c, A02_e; interval with (i_prec 80)]]. Qed.
Lemma r_A02_223 : rio_reads A02_c A02_e A02_lo A02_hi floor_volts ctol (Build_rio (Fin (785 / 256)) (Fin (5 / 1)) (Fin (5902958103587057 / 590295810358705651712)) (Fin (2507 / 512)) (Fin (13197 / 1024)) false true true ((Fin (327 / 128)) :: (Fin (539 / 1024)) :: (Fin (2009 / 1024)) :: (Fin (10259 / 512)) :: (Fin (1165 / 256)) :: (Fin (23811 / 512)) :: nil)) (45 / 2).
Proof. apply (A02_rio_fin _ (785 / 256)); [reflexivity | apply (A02_q_lo 785 256 45 2); [vm_compute; reflexivity | unfold fr, ctol, A02_lo, A02_c, A02_e; interval with (i_prec 80)]]. Qed.
Lemma r_A02_239 : rio_reads A02_c A02_e A02_lo A02_hi floor_volts ctol (Build_rio (Fin (865 / 256)) (Fin (5 / 1)) (Fin (3715469692580659 / 1125899906842624)) (Fin (6 / 1)) (Fin (12 / 1)) true true true ((Fin (0 / 1)) :: (Fin (0 / 1)) :: (Fin (0 / 1)) :: (Fin (0 / 1)) :: (Fin (27 / 4)) :: (Fin (45 / 1)) :: nil)) (45 / 2).
Proof. apply (A02_rio_fin _ (865 / 256)); [reflexivity | apply (A02_q_lo 865 256 45 2); [vm_compute; reflexivity | unfold fr, ctol, A02_lo, A02_c, A02_e; interval with (i_prec 80)]]. Qed.
Lemma r_A02_255 : rio_reads A02_c A02_e A02_lo A02_hi floor_volts ctol (Build_rio (Fin (945 / 256)) (Fin (2629 / 512)) (Fin (1665 / 512)) (Fin (2895 / 512)) (Fin (12 / 1)) true true true ((Fin (1751 / 1024)) :: (Fin (91 / 256)) :: (Fin (3007 / 1024)) :: (Fin (202419 / 1024)) :: (Fin (45 / 8)) :: (Fin (49957 / 1024)) :: nil)) (45 / 2).
Proof. apply (A02_rio_fin _ (945 / 256)); [reflexivity | apply (A02_q_lo 945 256 45 2); [vm_compute; reflexivity | unfold fr, ctol, A02_lo, A02_c, A02_e; interval with (i_prec 80)]]. Qed.
Lemma r_A02_271 : rio_reads A02_c A02_e A02_lo A02_hi floor_volts ctol (Build_rio (Fin (1025 / 256)) (Fin (1353 / 256)) (Fin (3135 / 1024)) (Fin (815 / 128)) (Fin (7229 / 512)) true true true ((Fin (1011 / 1024)) :: (Fin (1531 / 1024)) :: (Fin (697 / 1024)) :: (Fin (5495 / 32)) :: (Fin (7511 / 1024)) :: (Fin (48341 / 1024)) :: nil)) (45 / 2).
Proof. apply (A02_rio_fin _ (1025 / 256)); [reflexivity | apply (A02_q_lo 1025 256 45 2); [vm_compute; reflexivity | unfold fr, ctol, A02_lo, A02_c, A02_e; interval with (i_prec 80)]]. Qed.
Lemma r_A02_287 : rio_reads A02_c A02_e A02_lo A02_hi floor_volts ctol (Build_rio (Fin (1105 / 256)) (Fin (5 / 1)) (Fin (3715469692580659 / 1125899906842624)) (Fin (6 / 1)) (Fin (12 / 1)) true true true ((Fin (0 / 1)) :: (Fin (0 / 1)) :: (Fin (0 / 1)) :: (Fin (0 / 1)) :: (Fin (27 / 4)) :: (Fin (45 / 1)) :: nil)) (45 / 2).
Proof. apply (A02_rio_fin _ (1105 / 256)); [reflexivity | apply (A02_q_lo 1105 256 45 2); [vm_compute; reflexivity | unfold fr, ctol, A02_lo, A02_c, A02_e; interval with (i_prec 80)]]. Qed.
Lemma r_A02_303 : rio_reads A02_c A02_e A02_lo A02_hi floor_volts ctol (Build_rio (Fin (1185 / 256)) (Fin (2743 / 512)) (Fin (1063 / 512)) (Fin (6097 / 1024)) (Fin (2711 / 256)) true true false ((Fin (1727 / 1024)) :: (Fin (1019 / 1024)) :: (Fin (283 / 128)) :: (Fin (169947 / 1024)) :: (Fin (3415 / 512)) :: (Fin (93055 / 1024)) :: nil)) (45 / 2).
Proof. apply (A02_rio_fin _ (1185 / 256)); [reflexivity | apply (A02_q_lo 1185 256 45 2); [vm_compute; reflexivity | unfold fr, ctol, A02_lo, A02_c, A02_e; interval with (i_prec 80)]]. Qed.
Lemma r_A02_319 : rio_reads A02_c A02_e A02_lo A02_hi floor_volts ctol (Build_rio (Fin (1265 / 256)) (Fin (5 / 1)) (Fin (2941 / 1024)) (Fin (6 / 1)) (Fin (157 / 512)) true true true ((Fin (2279 / 1024)) :: (Fin (793 / 512)) :: (Fin (1743 / 1024)) :: (Fin (33695 / 512)) :: (Fin (6301 / 1024)) :: (Fin (46717 / 1024)) :: nil)) (45 / 2).
Proof. apply (A02_rio_fin _ (1265 / 256)); [reflexivity | apply (A02_q_lo 1265 256 45 2); [vm_compute; reflexivity | unfold fr, ctol, A02_lo, A02_c, A02_e; interval with (i_prec 80)]]. Qed.
Lemma r_A02_335 : rio_reads A02_c A02_e A02_lo A02_hi floor_volts ctol (Build_rio (Fin (813589824611709 / 562949953421312)) (Fin (5 / 1)) (Fin (3715469692580659 / 1125899906842624)) (Fin (6 / 1)) (Fin (12 / 1)) true true true ((Fin (0 / 1)) :: (Fin (0 / 1)) :: (Fin (0 / 1)) :: (Fin (0 / 1)) :: (Fin (27 / 4)) :: (Fin (45 / 1)) :: nil)) (2931423717691841 / 70368744177664).
Proof. apply (A02_rio_fin _ (813589824611709 / 562949953421312)); [reflexivity | apply (A02_q_mid 813589824611709 562949953421312 2931423717691841 70368744177664); [vm_compute; reflexivity | unfold fr, close, ctol, A02_c, A02_e; interval with (i_prec 80)]]. Qed.
Lemma r_A02_351 : rio_reads A02_c A02_e A02_lo A02_hi floor_volts ctol (Build_rio (Fin (4245327246595851 / 2251799813685248)) (Fin (4841 / 1024)) (Fin (3715469692580659 / 1125899906842624)) (Fin (1 / 202402253307310618352495346718917307049556649764142118356901358027430339567995346891960383701437124495187077864316811911389808737385793476867013399940738509921517424276566361364466907742093216341239767678472745068562007483424692698618103355649159556340810056512358769552333414615230502532186327508646006263307707741093494784)) (Fin (12 / 1)) true false false ((Fin (31 / 64)) :: (Fin (1785 / 1024)) :: (Fin (1113 / 512)) :: (Fin (197421 / 1024)) :: (Fin (109 / 16)) :: (Fin (79153 / 1024)) :: nil)) (8771460527876667 / 281474976710656).
Proof. apply (A02_rio_fin _ (4245327246595851 / 2251799813685248)); [reflexivity | apply (A02_q_mid 4245327246595851 2251799813685248 8771460527876667 281474976710656); [vm_compute; reflexivity | unfold fr, close, ctol, A02_c, A02_e; interval with (i_prec 80)]]. Qed.
Lemma r_A02_367 : rio_reads A02_c A02_e A02_lo A02_hi floor_volts ctol (Build_rio (Fin (2939618011803495 / 1125899906842624)) NInf (Fin (2903 / 1024)) (Fin ((-12) / 1)) (Fin (2671 / 256)) true true true ((Fin (839 / 1024)) :: (Fin (5 / 32)) :: (Fin (109 / 256)) :: (Fin (108325 / 1024)) :: (Fin (1609 / 256)) :: (Fin (19319 / 512)) :: nil)) (45 / 2).
Proof. apply (A02_rio_fin _ (2939618011803495 / 1125899906842624)); [reflexivity | apply (A02_q_lo 2939618011803495 1125899906842624 45 2); [vm_compute; reflexivity | unfold fr, ctol, A02_lo, A02_c, A02_e; interval with (i_prec 80)]]. Qed.
Lemma r_A02_384 : rio_reads A02_c A02_e A02_lo A02_hi floor_volts ctol (Build_rio (Fin (658716405447389 / 18446744073709551616)) (Fin (5565 / 1024)) (Fin (343 / 128)) (Fin (6 / 1)) (Fin (223 / 32)) true true true ((Fin (1025 / 1024)) :: (Fin (61 / 64)) :: (Fin (2759 / 1024)) :: (Fin (8731 / 64)) :: (Fin (301 / 64)) :: (Fin ((-1527) / 512)) :: nil)) (145 / 1).
Proof. apply (A02_rio_fin _ (658716405447389 / 18446744073709551616)); [reflexivity | apply (A02_q_hi 658716405447389 18446744073709551616 145 1); [vm_compute; reflexivity | unfold fr, ctol, A02_hi, A02_c, A02_e; interval with (i_prec 80)]]. Qed.
Lemma r_A02_403 : rio_reads A02_c A02_e A02_lo A02_hi floor_volts ctol (Build_rio (Fin (1381782691288883 / 144115188075855872)) (Fin (12805 / 1024)) (Fin (1495 / 512)) (Fin (6007 / 1024)) (Fin (11633 / 1024)) true true true ((Fin (1425 / 1024)) :: (Fin (1147 / 1024)) :: (Fin (2277 / 1024)) :: (Fin (21593 / 128)) :: (Fin (5043 / 1024)) :: (Fin (43165 / 512)) :: nil)) (145 / 1).
Proof. apply (A02_rio_fin _ (1381782691288883 / 144115188075855872)); [reflexivity | apply (A02_q_hi 1381782691288883 144115188075855872 145 1); [vm_compute; reflexivity | unfold fr, ctol, A02_hi, A02_c, A02_e; interval with (i_prec 80)]]. Qed.
Lemma r_A02_421 : rio_reads A02_c A02_e A02_lo A02_hi floor_volts ctol (Build_rio (Fin (4930766309786665 / 9007199254740992)) (Fin (2259 / 512)) NInf (Fin (9093 / 1024)) (Fin (5703 / 512)) true false true ((Fin (893 / 512)) :: (Fin (1389 / 1024)) :: (Fin (2417 / 1024)) :: (Fin (25189 / 1024)) :: (Fin (597 / 128)) :: (Fin (85309 / 1024)) :: nil)) (2115523702617097 / 17592186044416).
Proof. apply (A02_rio_fin _ (4930766309786665 / 9007199254740992)); [reflexivity | apply (A02_q_mid 4930766309786665 9007199254740992 2115523702617097 17592186044416); [vm_compute; reflexivity | unfold fr, close, ctol, A02_c, A02_e; interval with (i_prec 80)]]. Qed.
Lemma d_A02_8r : rio_reads A02_c A02_e A02_lo A02_hi floor_volts ctol (Build_rio (Fin (4395730056459969 / 2251799813685248)) (Fin (0 / 1)) (Fin (3715469692580659 / 1125899906842624)) (Fin (6 / 1)) (Fin (12 / 1)) true true true ((Fin (0 / 1)) :: (Fin (0 / 1)) :: (Fin (0 / 1)) :: (Fin (0 / 1)) :: (Fin (27 / 4)) :: (Fin (45 / 1)) :: nil)) (30 / 1).
Proof. apply (A02_rio_fin _ (4395730056459969 / 2251799813685248)); [reflexivity | apply (A02_q_mid 4395730056459969 2251799813685248 30 1); [vm_compute; reflexivity | unfold fr, close, ctol, A02_c, A02_e; interval with (i_prec 80)]]. Qed.
Lemma d_A02_16r : rio_reads A02_c A02_e A02_lo A02_hi floor_volts ctol (Build_rio (Fin (7634039911027491 / 4503599627370496)) PInf (Fin (3715469692580659 / 1125899906842624)) (Fin (6 / 1)) (Fin (12 / 1)) true true true ((Fin (0 / 1)) :: (Fin (0 / 1)) :: (Fin (0 / 1)) :: (Fin (0 / 1)) :: (Fin (27 / 4)) :: (Fin (45 / 1)) :: nil)) (35 / 1).
Proof. apply (A02_rio_fin _ (7634039911027491 / 4503599627370496)); [reflexivity | apply (A02_q_mid 7634039911027491 4503599627370496 35 1); [vm_compute; reflexivity | unfold fr, close, ctol, A02_c, A02_e; interval with (i_prec 80)]]. Qed.
Lemma d_A02_24r : rio_reads A02_c A02_e A02_lo A02_hi floor_volts ctol (Build_rio (Fin (357539307115111 / 140737488355328)) (Fin (5 / 1)) (Fin (3715469692580659 / 1125899906842624)) (Fin (6 / 1)) (Fin ((-1) / 1)) true true true ((Fin (0 / 1)) :: (Fin (0 / 1)) :: (Fin (0 / 1)) :: (Fin (0 / 1)) :: (Fin (27 / 4)) :: (Fin (45 / 1)) :: nil)) (45 / 2).
Proof. apply (A02_rio_fin _ (357539307115111 / 140737488355328)); [reflexivity | apply (A02_q_lo 357539307115111 140737488355328 45 2); [vm_compute; reflexivity | unfold fr, ctol, A02_lo, A02_c, A02_e; interval with (i_prec 80)]]. Qed.
Lemma d_A02_32r : rio_reads A02_c A02_e A02_lo A02_hi floor_volts ctol (Build_rio (Fin (4395730056459969 / 2251799813685248)) (Fin (5 / 1)) (Fin ((-1) / 1)) (Fin (6 / 1)) (Fin (12 / 1)) true true true ((Fin (0 / 1)) :: (Fin (0 / 1)) :: (Fin (0 / 1)) :: (Fin (0 / 1)) :: (Fin (27 / 4)) :: (Fin (45 / 1)) :: nil)) (30 / 1).
Proof. apply (A02_rio_fin _ (4395730056459969 / 2251799813685248)); [reflexivity | apply (A02_q_mid 4395730056459969 2251799813685248 30 1); [vm_compute; reflexivity | unfold fr, close, ctol, A02_c, A02_e; interval with (i_prec 80)]]. Qed.
Lemma d_A02_40r : rio_reads A02_c A02_e A02_lo A02_hi floor_volts ctol (Build_rio (Fin (8308476880671015 / 18014398509481984)) (Fin (5 / 1)) (Fin (3715469692580659 / 1125899906842624)) (Fin (6 / 1)) (Fin (12 / 1)) false true true ((Fin (0 / 1)) :: (Fin (0 / 1)) :: (Fin (0 / 1)) :: (Fin (0 / 1)) :: (Fin (27 / 4)) :: (Fin (45 / 1)) :: nil)) (145 / 1).
Proof. apply (A02_rio_fin _ (8308476880671015 / 18014398509481984)); [reflexivity | apply (A02_q_hi 8308476880671015 18014398509481984 145 1); [vm_compute; reflexivity | unfold fr, ctol, A02_hi, A02_c, A02_e; interval with (i_prec 80)]]. Qed.
Lemma d_A02_48r : rio_reads A02_c A02_e A02_lo A02_hi floor_volts ctol (Build_rio (Fin (8308476880671015 / 18014398509481984)) (Fin (5 / 1)) (Fin (3715469692580659 / 1125899906842624)) (Fin (6 / 1)) (Fin (12 / 1)) true true true ((Fin (0 / 1)) :: (Fin (0 / 1)) :: (Fin (0 / 1)) :: (Fin (40 / 1)) :: (Fin (27 / 4)) :: (Fin (45 / 1)) :: nil)) (145 / 1).
Proof. apply (A02_rio_fin _ (8308476880671015 / 18014398509481984)); [reflexivity | apply (A02_q_hi 8308476880671015 18014398509481984 145 1); [vm_compute; reflexivity | unfold fr, ctol, A02_hi, A02_c, A02_e; interval with (i_prec 80)]]. Qed.
Lemma d_A02_56r : rio_reads A02_c A02_e A02_lo A02_hi floor_volts ctol (Build_rio (Fin (5606639639729965 / 2251799813685248)) (Fin (0 / 1)) (Fin (3715469692580659 / 1125899906842624)) (Fin (6 / 1)) (Fin (12 / 1)) false true true ((Fin (0 / 1)) :: (Fin (0 / 1)) :: (Fin (0 / 1)) :: (Fin (0 / 1)) :: (Fin (27 / 4)) :: (Fin (45 / 1)) :: nil)) (23 / 1).
Proof. apply (A02_rio_fin _ (5606639639729965 / 2251799813685248)); [reflexivity | apply (A02_q_mid 5606639639729965 2251799813685248 23 1); [vm_compute; reflexivity | unfold fr, close, ctol, A02_c, A02_e; interval with (i_prec 80)]]. Qed.
Lemma d_A02_68r : rio_reads A02_c A02_e A02_lo A02_hi floor_volts ctol (Build_rio (Fin (8050652297167593 / 9007199254740992)) (Fin (1261 / 256)) (Fin (1607 / 512)) (Fin (1465 / 256)) (Fin (5365 / 512)) true true true ((Fin (137 / 256)) :: (Fin (419 / 512)) :: (Fin (655 / 256)) :: (Fin (9899 / 64)) :: (Fin (4671 / 1024)) :: (Fin (39505 / 512)) :: nil)) (2477096406231263 / 35184372088832).
Proof. apply (A02_rio_fin _ (8050652297167593 / 9007199254740992)); [reflexivity | apply (A02_q_mid 8050652297167593 9007199254740992 2477096406231263 35184372088832); [vm_compute; reflexivity | unfold fr, close, ctol, A02_c, A02_e; interval with (i_prec 80)]]. Qed.
Lemma d_A02_81u : close ctol (7167557400569779 / 4503599627370496) (volts_A02 (2638459001001339 / 70368744177664)).
Proof. apply (A02_q_volts_mid 2638459001001339 70368744177664 7167557400569779 4503599627370496); [vm_compute; reflexivity | unfold fr, close, ctol, A02_lo, A02_hi, A02_c, A02_e; interval with (i_prec 80)]. Qed.
Lemma d_A02_94u : close ctol (357539307115111 / 140737488355328) (volts_A02 (1267303346696013 / 70368744177664)).
Proof. apply (A02_q_volts_lo 1267303346696013 70368744177664 357539307115111 140737488355328); [vm_compute; reflexivity | unfold fr, close, ctol, A02_lo, A02_hi, A02_c, A02_e; interval with (i_prec 80)]. Qed.
Lemma d_A02_107u : close ctol (6139146151331353 / 4503599627370496) (volts_A02 (781163209153013 / 17592186044416)).
Proof. apply (A02_q_volts_mid 781163209153013 17592186044416 6139146151331353 4503599627370496); [vm_compute; reflexivity | unfold fr, close, ctol, A02_lo, A02_hi, A02_c, A02_e; interval with (i_prec 80)]. Qed.
Lemma d_A02_120u : close ctol (628859442067433 / 1125899906842624) (volts_A02 (8278385602375429 / 70368744177664)).
Proof. apply (A02_q_volts_mid 8278385602375429 70368744177664 628859442067433 1125899906842624); [vm_compute; reflexivity | unfold fr, close, ctol, A02_lo, A02_hi, A02_c, A02_e; interval with (i_prec 80)]. Qed.
Lemma d_A02_132r : rio_reads A02_c A02_e A02_lo A02_hi floor_volts ctol (Build_rio (Fin (288990001783659 / 140737488355328)) (Fin (5902958103587057 / 590295810358705651712)) (Fin (3715469692580659 / 1125899906842624)) (Fin (6353 / 1024)) (Fin (100000000000000001097906362944045541740492309677311846336810682903157585404911491537163328978494688899061249669721172515611590283743140088328307009198146046031271664502933027185697489699588559043338384466165001178426897626212945177628091195786707458122783970171784415105291802893207873272974885715430223118336 / 1)) true true false ((Fin (1101 / 512)) :: (Fin (739 / 512)) :: (Fin (2311 / 1024)) :: (Fin (29487 / 256)) :: (Fin (2703 / 512)) :: (Fin (89619 / 1024)) :: nil)) (7990387776743303 / 281474976710656).
Proof. apply (A02_rio_fin _ (288990001783659 / 140737488355328)); [reflexivity | apply (A02_q_mid 288990001783659 140737488355328 7990387776743303 281474976710656); [vm_compute; reflexivity | unfold fr, close, ctol, A02_c, A02_e; interval with (i_prec 80)]]. Qed.
Lemma d_A02_145u : close ctol (4275120523862581 / 4503599627370496) (volts_A02 (4638953999419935 / 70368744177664)).
Proof. apply (A02_q_volts_mid 4638953999419935 70368744177664 4275120523862581 4503599627370496); [vm_compute; reflexivity | unfold fr, close, ctol, A02_lo, A02_hi, A02_c, A02_e; interval with (i_prec 80)]. Qed.
Lemma d_A02_158u : close ctol (8308476880671015 / 18014398509481984) (volts_A02 (203 / 1)).
Proof. apply (A02_q_volts_hi 203 1 8308476880671015 18014398509481984); [vm_compute; reflexivity | unfold fr, close, ctol, A02_lo, A02_hi, A02_c, A02_e; interval with (i_prec 80)]. Qed.
Lemma d_A02_171u : close ctol (5535660793417457 / 9007199254740992) (volts_A02 (3728802459665411 / 35184372088832)).
Proof. apply (A02_q_volts_mid 3728802459665411 35184372088832 5535660793417457 9007199254740992); [vm_compute; reflexivity | unfold fr, close, ctol, A02_lo, A02_hi, A02_c, A02_e; interval with (i_prec 80)]. Qed.
Lemma d_A02_184u : close ctol (1485056244358083 / 2251799813685248) (volts_A02 (6904745468762349 / 70368744177664)).
Proof. apply (A02_q_volts_mid 6904745468762349 70368744177664 1485056244358083 2251799813685248); [vm_compute; reflexivity | unfold fr, close, ctol, A02_lo, A02_hi, A02_c, A02_e; interval with (i_prec 80)]. Qed.
Lemma d_A02_196r : rio_reads A02_c A02_e A02_lo A02_hi floor_volts ctol (Build_rio (Fin (5384225900464779 / 4503599627370496)) (Fin (5123 / 1024)) (Fin (3293 / 1024)) (Fin (39 / 8)) (Fin (12395 / 1024)) true true false ((Fin (2305 / 1024)) :: (Fin (129 / 128)) :: (Fin (415 / 512)) :: (Fin (4887 / 512)) :: (Fin (1763 / 512)) :: (Fin (95267 / 1024)) :: nil)) (3606027748196001 / 70368744177664).
Proof. apply (A02_rio_fin _ (5384225900464779 / 4503599627370496)); [reflexivity | apply (A02_q_mid 5384225900464779 4503599627370496 3606027748196001 70368744177664); [vm_compute; reflexivity | unfold fr, close, ctol, A02_c, A02_e; interval with (i_prec 80)]]. Qed.
Lemma d_A02_209u : close ctol (357539307115111 / 140737488355328) (volts_A02 ((-4962225027055119) / 562949953421312)).
Proof. apply (A02_q_volts_lo (-4962225027055119) 562949953421312 357539307115111 140737488355328); [vm_compute; reflexivity | unfold fr, close, ctol, A02_lo, A02_hi, A02_c, A02_e; interval with (i_prec 80)]. Qed.
Lemma d_A02_222u : close ctol (6580493796896583 / 4503599627370496) (volts_A02 (2896525882735257 / 70368744177664)).
Proof. apply (A02_q_volts_mid 2896525882735257 70368744177664 6580493796896583 4503599627370496); [vm_compute; reflexivity | unfold fr, close, ctol, A02_lo, A02_hi, A02_c, A02_e; interval with (i_prec 80)]. Qed.
Lemma d_A02_235u : close ctol (357539307115111 / 140737488355328) (volts_A02 (1097284755558557 / 140737488355328)).
Proof. apply (A02_q_volts_lo 1097284755558557 140737488355328 357539307115111 140737488355328); [vm_compute; reflexivity | unfold fr, close, ctol, A02_lo, A02_hi, A02_c, A02_e; interval with (i_prec 80)]. Qed.
Lemma d_A02_248u : close ctol (4536531467416171 / 9007199254740992) (volts_A02 (2317063378199343 / 17592186044416)).
Proof. apply (A02_q_volts_mid 2317063378199343 17592186044416 4536531467416171 9007199254740992); [vm_compute; reflexivity | unfold fr, close, ctol, A02_lo, A02_hi, A02_c, A02_e; interval with (i_prec 80)]. Qed.
Lemma d_A02_260r : rio_reads A02_c A02_e A02_lo A02_hi floor_volts ctol (Build_rio (Fin (357539307115111 / 140737488355328)) (Fin (629 / 128)) (Fin (2739 / 1024)) (Fin (1377 / 256)) (Fin (12 / 1)) true true true ((Fin (1817 / 1024)) :: (Fin (1241 / 1024)) :: (Fin (2167 / 1024)) :: (Fin (164013 / 1024)) :: (Fin (5835 / 1024)) :: (Fin ((-553) / 1024)) :: nil)) (45 / 2).
Proof. apply (A02_rio_fin _ (357539307115111 / 140737488355328)); [reflexivity | apply (A02_q_lo 357539307115111 140737488355328 45 2); [vm_compute; reflexivity | unfold fr, ctol, A02_lo, A02_c, A02_e; interval with (i_prec 80)]]. Qed.
Lemma d_A02_273u : close ctol (8415084185453571 / 18014398509481984) (volts_A02 (5031197306748417 / 35184372088832)).
Proof. apply (A02_q_volts_mid 5031197306748417 35184372088832 8415084185453571 18014398509481984); [vm_compute; reflexivity | unfold fr, close, ctol, A02_lo, A02_hi, A02_c, A02_e; interval with (i_prec 80)]. Qed.
Lemma d_A02_286u : close ctol (8308476880671015 / 18014398509481984) (volts_A02 (3239010655950263 / 17592186044416)).
Proof. apply (A02_q_volts_hi 3239010655950263 17592186044416 8308476880671015 18014398509481984); [vm_compute; reflexivity | unfold fr, close, ctol, A02_lo, A02_hi, A02_c, A02_e; interval with (i_prec 80)]. Qed.
Lemma d_A02_299u : close ctol (357539307115111 / 140737488355328) (volts_A02 (158357612345963 / 281474976710656)).
Proof. apply (A02_q_volts_lo 158357612345963 281474976710656 357539307115111 140737488355328); [vm_compute; reflexivity | unfold fr, close, ctol, A02_lo, A02_hi, A02_c, A02_e; interval with (i_prec 80)]. Qed.
Lemma d_A02_312u : close ctol (4891323652016973 / 4503599627370496) (volts_A02 (4004626795477175 / 70368744177664)).
Proof. apply (A02_q_volts_mid 4004626795477175 70368744177664 4891323652016973 4503599627370496); [vm_compute; reflexivity | unfold fr, close, ctol, A02_lo, A02_hi, A02_c, A02_e; interval with (i_prec 80)]. Qed.
Lemma d_A02_324r : rio_reads A02_c A02_e A02_lo A02_hi floor_volts ctol (Build_rio (Fin (4538791041204361 / 9007199254740992)) (Fin (5417 / 1024)) (Fin (3715469692580659 / 1125899906842624)) (Fin (7427 / 1024)) (Fin (5485 / 512)) true true false ((Fin (1217 / 512)) :: (Fin (13 / 1024)) :: (Fin (129 / 1024)) :: (Fin (33805 / 512)) :: (Fin (8547 / 1024)) :: (Fin (29623 / 512)) :: nil)) (578950941438093 / 4398046511104).
Proof. apply (A02_rio_fin _ (4538791041204361 / 9007199254740992)); [reflexivity | apply (A02_q_mid 4538791041204361 9007199254740992 578950941438093 4398046511104); [vm_compute; reflexivity | unfold fr, close, ctol, A02_c, A02_e; interval with (i_prec 80)]]. Qed.
Lemma d_A02_337u : close ctol (6468521133104959 / 9007199254740992) (volts_A02 (3145657076823607 / 35184372088832)).
Proof. apply (A02_q_volts_mid 3145657076823607 35184372088832 6468521133104959 9007199254740992); [vm_compute; reflexivity | unfold fr, close, ctol, A02_lo, A02_hi, A02_c, A02_e; interval with (i_prec 80)]. Qed.
Lemma d_A02_350u : close ctol (357539307115111 / 140737488355328) (volts_A02 (2358474700623827 / 281474976710656)).
Proof. apply (A02_q_volts_lo 2358474700623827 281474976710656 357539307115111 140737488355328); [vm_compute; reflexivity | unfold fr, close, ctol, A02_lo, A02_hi, A02_c, A02_e; interval with (i_prec 80)]. Qed.
Lemma d_A02_363u : close ctol (5811253519663481 / 9007199254740992) (volts_A02 (7072252984567281 / 70368744177664)).
Proof. apply (A02_q_volts_mid 7072252984567281 70368744177664 5811253519663481 9007199254740992); [vm_compute; reflexivity | unfold fr, close, ctol, A02_lo, A02_hi, A02_c, A02_e; interval with (i_prec 80)]. Qed.
Lemma d_A02_376u : close ctol (6234558023077967 / 9007199254740992) (volts_A02 (3274783887682999 / 35184372088832)).
Proof. apply (A02_q_volts_mid 3274783887682999 35184372088832 6234558023077967 9007199254740992); [vm_compute; reflexivity | unfold fr, close, ctol, A02_lo, A02_hi, A02_c, A02_e; interval with (i_prec 80)]. Qed.
Lemma d_A02_388r : rio_reads A02_c A02_e A02_lo A02_hi floor_volts ctol (Build_rio (Fin (6338405690065527 / 9007199254740992)) (Fin (5 / 1)) (Fin (357 / 128)) (Fin (6 / 1)) (Fin (11401 / 1024)) true true true ((Fin (31 / 32)) :: (Fin (589 / 1024)) :: (Fin (2427 / 1024)) :: (Fin (7177 / 64)) :: (Fin (849 / 128)) :: (Fin (2125 / 256)) :: nil)) (6432476935739605 / 70368744177664).
Proof. apply (A02_rio_fin _ (6338405690065527 / 9007199254740992)); [reflexivity | apply (A02_q_mid 6338405690065527 9007199254740992 6432476935739605 70368744177664); [vm_compute; reflexivity | unfold fr, close, ctol, A02_c, A02_e; interval with (i_prec 80)]]. Qed.
Lemma d_A02_401u : close ctol (3316038926432145 / 4503599627370496) (volts_A02 (87 / 1)).
Proof. apply (A02_q_volts_mid 87 1 3316038926432145 4503599627370496); [vm_compute; reflexivity | unfold fr, close, ctol, A02_lo, A02_hi, A02_c, A02_e; interval with (i_prec 80)]. Qed.
Lemma d_A02_414u : close ctol (5402951937671261 / 9007199254740992) (volts_A02 (3828928635804111 / 35184372088832)).
Proof. apply (A02_q_volts_mid 3828928635804111 35184372088832 5402951937671261 9007199254740992); [vm_compute; reflexivity | unfold fr, close, ctol, A02_lo, A02_hi, A02_c, A02_e; interval with (i_prec 80)]. Qed.
Lemma d_A02_427u : close ctol (357539307115111 / 140737488355328) (volts_A02 (3915505640364969 / 281474976710656)).
Proof. apply (A02_q_volts_lo 3915505640364969 281474976710656 357539307115111 140737488355328); [vm_compute; reflexivity | unfold fr, close, ctol, A02_lo, A02_hi, A02_c, A02_e; interval with (i_prec 80)]. Qed.
Lemma d_A02_440u : close ctol (8562910344804273 / 18014398509481984) (volts_A02 (1234106490354553 / 8796093022208)).
Proof. apply (A02_q_volts_mid 1234106490354553 8796093022208 8562910344804273 18014398509481984); [vm_compute; reflexivity | unfold fr, close, ctol, A02_lo, A02_hi, A02_c, A02_e; interval with (i_prec 80)]. Qed.
Lemma d_A02_452r : rio_reads A02_c A02_e A02_lo A02_hi floor_volts ctol (Build_rio (Fin (8308476880671015 / 18014398509481984)) (Fin (5127 / 1024)) (Fin (4333 / 1024)) (Fin (2879 / 512)) (Fin (885 / 128)) true false false ((Fin (17 / 512)) :: (Fin (187 / 256)) :: (Fin (837 / 1024)) :: (Fin (18245 / 256)) :: (Fin (121 / 32)) :: (Fin (27211 / 1024)) :: nil)) (145 / 1).
Proof. apply (A02_rio_fin _ (8308476880671015 / 18014398509481984)); [reflexivity | apply (A02_q_hi 8308476880671015 18014398509481984 145 1); [vm_compute; reflexivity | unfold fr, ctol, A02_hi, A02_c, A02_e; interval with (i_prec 80)]]. Qed.
Lemma d_A02_465u : close ctol (6491699693678263 / 9007199254740992) (volts_A02 (48959285135199 / 549755813888)).
Proof. apply (A02_q_volts_mid 48959285135199 549755813888 6491699693678263 9007199254740992); [vm_compute; reflexivity | unfold fr, close, ctol, A02_lo, A02_hi, A02_c, A02_e; interval with (i_prec 80)]. Qed.
Lemma d_A02_478u : close ctol (3246691803737027 / 2251799813685248) (volts_A02 (5877968793371255 / 140737488355328)).
Proof. apply (A02_q_volts_mid 5877968793371255 140737488355328 3246691803737027 2251799813685248); [vm_compute; reflexivity | unfold fr, close, ctol, A02_lo, A02_hi, A02_c, A02_e; interval with (i_prec 80)]. Qed.
Lemma d_A02_491u : close ctol (357539307115111 / 140737488355328) (volts_A02 (10 / 1)).
Proof. apply (A02_q_volts_lo 10 1 357539307115111 140737488355328); [vm_compute; reflexivity | unfold fr, close, ctol, A02_lo, A02_hi, A02_c, A02_e; interval with (i_prec 80)]. Qed.
Lemma d_A02_504u : close ctol (89095659024099 / 140737488355328) (volts_A02 (7220188819568821 / 70368744177664)).
Proof. apply (A02_q_volts_mid 7220188819568821 70368744177664 89095659024099 140737488355328); [vm_compute; reflexivity | unfold fr, close, ctol, A02_lo, A02_hi, A02_c, A02_e; interval with (i_prec 80)]. Qed.
Lemma d_A02_516r : rio_reads A02_c A02_e A02_lo A02_hi floor_volts ctol (Build_rio (Fin (8308476880671015 / 18014398509481984)) (Fin (317 / 64)) (Fin (14455 / 1024)) (Fin (5555 / 1024)) (Fin (12 / 1)) true false false ((Fin (335 / 128)) :: (Fin (343 / 512)) :: (Fin (127 / 1024)) :: (Fin (124573 / 1024)) :: (Fin (2099 / 256)) :: (Fin (11823 / 256)) :: nil)) (145 / 1).
Proof. apply (A02_rio_fin _ (8308476880671015 / 18014398509481984)); [reflexivity | apply (A02_q_hi 8308476880671015 18014398509481984 145 1); [vm_compute; reflexivity | unfold fr, ctol, A02_hi, A02_c, A02_e; interval with (i_prec 80)]]. Qed.
Lemma d_A02_529u : close ctol (8702735727999131 / 4503599627370496) (volts_A02 (2134575642031463 / 70368744177664)).
Proof. apply (A02_q_volts_mid 2134575642031463 70368744177664 8702735727999131 4503599627370496); [vm_compute; reflexivity | unfold fr, close, ctol, A02_lo, A02_hi, A02_c, A02_e; interval with (i_prec 80)]. Qed.
Lemma d_A02_542u : close ctol (357539307115111 / 140737488355328) (volts_A02 ((-521125755011247) / 70368744177664)).
Proof. apply (A02_q_volts_lo (-521125755011247) 70368744177664 357539307115111 140737488355328); [vm_compute; reflexivity | unfold fr, close, ctol, A02_lo, A02_hi, A02_c, A02_e; interval with (i_prec 80)]. Qed.
Lemma d_A02_555u : close ctol (1458679476359477 / 2251799813685248) (volts_A02 (3520600501952647 / 35184372088832)).
Proof. apply (A02_q_volts_mid 3520600501952647 35184372088832 1458679476359477 2251799813685248); [vm_compute; reflexivity | unfold fr, close, ctol, A02_lo, A02_hi, A02_c, A02_e; interval with (i_prec 80)]. Qed.
Lemma d_A02_568u : close ctol (8308476880671015 / 18014398509481984) (volts_A02 (2429570986297061 / 8796093022208)).
Proof. apply (A02_q_volts_hi 2429570986297061 8796093022208 8308476880671015 18014398509481984); [vm_compute; reflexivity | unfold fr, close, ctol, A02_lo, A02_hi, A02_c, A02_e; interval with (i_prec 80)]. Qed.
Lemma d_A02_580r : rio_reads A02_c A02_e A02_lo A02_hi floor_volts ctol (Build_rio (Fin (8308476880671015 / 18014398509481984)) (Fin (2379 / 512)) (Fin (1707 / 512)) (Fin (405 / 64)) (Fin (83 / 8)) true true true ((Fin (791 / 512)) :: (Fin (541 / 1024)) :: (Fin (119 / 1024)) :: (Fin (97885 / 1024)) :: (Fin (1413 / 256)) :: (Fin (24151 / 512)) :: nil)) (145 / 1).
Proof. apply (A02_rio_fin _ (8308476880671015 / 18014398509481984)); [reflexivity | apply (A02_q_hi 8308476880671015 18014398509481984 145 1); [vm_compute; reflexivity | unfold fr, ctol, A02_hi, A02_c, A02_e; interval with (i_prec 80)]]. Qed.
Lemma d_A02_593u : close ctol (1183087345430311 / 1125899906842624) (volts_A02 (59 / 1)).
Proof. apply (A02_q_volts_mid 59 1 1183087345430311 1125899906842624); [vm_compute; reflexivity | unfold fr, close, ctol, A02_lo, A02_hi, A02_c, A02_e; interval with (i_prec 80)]. Qed.
Lemma d_A02_606u : close ctol (357539307115111 / 140737488355328) (volts_A02 ((-6306881802065799) / 1125899906842624)).
Proof. apply (A02_q_volts_lo (-6306881802065799) 1125899906842624 357539307115111 140737488355328); [vm_compute; reflexivity | unfold fr, close, ctol, A02_lo, A02_hi, A02_c, A02_e; interval with (i_prec 80)]. Qed.
Lemma d_A02_619u : close ctol (5712331819964831 / 4503599627370496) (volts_A02 (845114249968077 / 17592186044416)).
Proof. apply (A02_q_volts_mid 845114249968077 17592186044416 5712331819964831 4503599627370496); [vm_compute; reflexivity | unfold fr, close, ctol, A02_lo, A02_hi, A02_c, A02_e; interval with (i_prec 80)]. Qed.
Lemma d_A02_632u : close ctol (2137355102971657 / 2251799813685248) (volts_A02 (4639440248091207 / 70368744177664)).
Proof. apply (A02_q_volts_mid 4639440248091207 70368744177664 2137355102971657 2251799813685248); [vm_compute; reflexivity | unfold fr, close, ctol, A02_lo, A02_hi, A02_c, A02_e; interval with (i_prec 80)]. Qed.
Lemma d_A02_644r : rio_reads A02_c A02_e A02_lo A02_hi floor_volts ctol (Build_rio (Fin (8308476880671015 / 18014398509481984)) NInf (Fin (1691 / 512)) (Fin (2669 / 512)) (Fin (1 / 202402253307310618352495346718917307049556649764142118356901358027430339567995346891960383701437124495187077864316811911389808737385793476867013399940738509921517424276566361364466907742093216341239767678472745068562007483424692698618103355649159556340810056512358769552333414615230502532186327508646006263307707741093494784)) false false true ((Fin (133 / 1024)) :: (Fin (19 / 256)) :: (Fin (1337 / 1024)) :: (Fin (28059 / 512)) :: (Fin (3773 / 512)) :: (Fin (16705 / 256)) :: nil)) (145 / 1).
Proof. apply (A02_rio_fin _ (8308476880671015 / 18014398509481984)); [reflexivity | apply (A02_q_hi 8308476880671015 18014398509481984 145 1); [vm_compute; reflexivity | unfold fr, ctol, A02_hi, A02_c, A02_e; interval with (i_prec 80)]]. Qed.
Lemma d_A02_657u : close ctol (8851487905542577 / 9007199254740992) (volts_A02 (558352761515001 / 8796093022208)).
Proof. apply (A02_q_volts_mid 558352761515001 8796093022208 8851487905542577 9007199254740992); [vm_compute; reflexivity | unfold fr, close, ctol, A02_lo, A02_hi, A02_c, A02_e; interval with (i_prec 80)]. Qed.
Lemma r_A21_428 : rio_reads A21_c A21_e A21_lo A21_hi floor_volts ctol (Build_rio (Fin (1 / 1)) (Fin (1 / 1)) (Fin (1 / 1)) (Fin (1 / 1)) (Fin (1 / 1)) true true true ((Fin (0 / 1)) :: (Fin (0 / 1)) :: (Fin (0 / 1)) :: (Fin (0 / 1)) :: (Fin (1 / 1)) :: (Fin (45 / 1)) :: nil)) (7444731659020141 / 281474976710656).
Proof. apply (A21_rio_fin _ (1 / 1)); [reflexivity | apply (A21_q_mid 1 1 7444731659020141 281474976710656); [vm_compute; reflexivity | unfold fr, close, ctol, A21_c, A21_e; interval with (i_prec 80)]]. Qed.
Lemma r_A21_459 : rio_reads A21_c A21_e A21_lo A21_hi floor_volts ctol (Build_rio (Fin (100000000000000001097906362944045541740492309677311846336810682903157585404911491537163328978494688899061249669721172515611590283743140088328307009198146046031271664502933027185697489699588559043338384466165001178426897626212945177628091195786707458122783970171784415105291802893207873272974885715430223118336 / 1)) (Fin (5 / 1)) (Fin (5 / 1)) (Fin (6 / 1)) (Fin (12 / 1)) true true true ((Fin (0 / 1)) :: (Fin (0 / 1)) :: (Fin (0 / 1)) :: (Fin (0 / 1)) :: (Fin (27 / 4)) :: (Fin (45 / 1)) :: nil)) (10 / 1).
Proof. apply (A21_rio_fin _ (100000000000000001097906362944045541740492309677311846336810682903157585404911491537163328978494688899061249669721172515611590283743140088328307009198146046031271664502933027185697489699588559043338384466165001178426897626212945177628091195786707458122783970171784415105291802893207873272974885715430223118336 / 1)); [reflexivity | apply (A21_q_lo 100000000000000001097906362944045541740492309677311846336810682903157585404911491537163328978494688899061249669721172515611590283743140088328307009198146046031271664502933027185697489699588559043338384466165001178426897626212945177628091195786707458122783970171784415105291802893207873272974885715430223118336 1 10 1); [vm_compute; reflexivity | unfold fr, ctol, A21_lo, A21_c, A21_e; interval with (i_prec 80)]]. Qed.
Lemma r_A21_477 : rio_reads A21_c A21_e A21_lo A21_hi floor_volts ctol (Build_rio (Fin (825 / 2048)) (Fin (5 / 1)) (Fin (3715469692580659 / 1125899906842624)) (Fin (6 / 1)) (Fin (12 / 1)) true true true ((Fin (0 / 1)) :: (Fin (0 / 1)) :: (Fin (0 / 1)) :: (Fin (40 / 1)) :: (Fin (27 / 4)) :: (Fin (45 / 1)) :: nil)) (80 / 1).
Proof. apply (A21_rio_fin _ (825 / 2048)); [reflexivity | apply (A21_q_hi 825 2048 80 1); [vm_compute; reflexivity | unfold fr, ctol, A21_hi, A21_c, A21_e; interval with (i_prec 80)]]. Qed.
Lemma r_A21_493 : rio_reads A21_c A21_e A21_lo A21_hi floor_volts ctol (Build_rio (Fin (15 / 256)) (Fin (0 / 1)) (Fin (5379 / 1024)) (Fin (5037 / 1024)) (Fin (10981 / 1024)) false true true ((Fin (2561 / 1024)) :: (Fin (553 / 512)) :: (Fin (1301 / 512)) :: (Fin (111229 / 1024)) :: (Fin (2659 / 512)) :: (Fin (5069 / 1024)) :: nil)) (80 / 1).
Proof. apply (A21_rio_fin _ (15 / 256)); [reflexivity | apply (A21_q_hi 15 256 80 1); [vm_compute; reflexivity | unfold fr, ctol, A21_hi, A21_c, A21_e; interval with (i_prec 80)]]. Qed.
Lemma r_A21_509 : rio_reads A21_c A21_e A21_lo A21_hi floor_volts ctol (Build_rio (Fin (95 / 256)) (Fin (4947 / 1024)) (Fin (3715469692580659 / 1125899906842624)) (Fin (3057 / 512)) (Fin (12 / 1)) true false true ((Fin (673 / 256)) :: (Fin (921 / 512)) :: (Fin (813 / 1024)) :: (Fin (47583 / 256)) :: (Fin (3133 / 1024)) :: (Fin (55015 / 1024)) :: nil)) (80 / 1).
Proof. apply (A21_rio_fin _ (95 / 256)); [reflexivity | apply (A21_q_hi 95 256 80 1); [vm_compute; reflexivity | unfold fr, ctol, A21_hi, A21_c, A21_e; interval with (i_prec 80)]]. Qed.
Lemma r_A21_525 : rio_reads A21_c A21_e A21_lo A21_hi floor_volts ctol (Build_rio (Fin (175 / 256)) (Fin (5 / 1)) (Fin (3715469692580659 / 1125899906842624)) (Fin (6 / 1)) (Fin (12 / 1)) true true true ((Fin (0 / 1)) :: (Fin (0 / 1)) :: (Fin (0 / 1)) :: (Fin (0 / 1)) :: (Fin (27 / 4)) :: (Fin (45 / 1)) :: nil)) (2967061900709981 / 70368744177664).
Proof. apply (A21_rio_fin _ (175 / 256)); [reflexivity | apply (A21_q_mid 175 256 2967061900709981 70368744177664); [vm_compute; reflexivity | unfold fr, close, ctol, A21_c, A21_e; interval with (i_prec 80)]]. Qed.
Lemma r_A21_541 : rio_reads A21_c A21_e A21_lo A21_hi floor_volts ctol (Build_rio (Fin (255 / 256)) (Fin (2535 / 512)) (Fin (2585 / 1024)) (Fin (0 / 1)) (Fin (12 / 1)) false true false ((Fin (177 / 256)) :: (Fin (1273 / 1024)) :: (Fin (929 / 1024)) :: (Fin (2633 / 32)) :: (Fin (537 / 128)) :: (Fin (70179 / 1024)) :: nil)) (1870135151568157 / 70368744177664).
Proof. apply (A21_rio_fin _ (255 / 256)); [reflexivity | apply (A21_q_mid 255 256 1870135151568157 70368744177664); [vm_compute; reflexivity | unfold fr, close, ctol, A21_c, A21_e; interval with (i_prec 80)]]. Qed.
Lemma r_A21_557 : rio_reads A21_c A21_e A21_lo A21_hi floor_volts ctol (Build_rio (Fin (335 / 256)) (Fin (5902958103587057 / 590295810358705651712)) (Fin (0 / 1)) (Fin (3177 / 512)) (Fin (100000000000000001097906362944045541740492309677311846336810682903157585404911491537163328978494688899061249669721172515611590283743140088328307009198146046031271664502933027185697489699588559043338384466165001178426897626212945177628091195786707458122783970171784415105291802893207873272974885715430223118336 / 1)) true true true ((Fin (175 / 1024)) :: (Fin (349 / 1024)) :: (Fin (2609 / 1024)) :: (Fin (64989 / 1024)) :: (Fin (7287 / 1024)) :: (Fin (45221 / 512)) :: nil)) (5353604847563691 / 281474976710656).
Proof. apply (A21_rio_fin _ (335 / 256)); [reflexivity | apply (A21_q_mid 335 256 5353604847563691 281474976710656); [vm_compute; reflexivity | unfold fr, close, ctol, A21_c, A21_e; interval with (i_prec 80)]]. Qed.
Lemma r_A21_573 : rio_reads A21_c A21_e A21_lo A21_hi floor_volts ctol (Build_rio (Fin (415 / 256)) (Fin (5 / 1)) (Fin (3715469692580659 / 1125899906842624)) (Fin (6 / 1)) (Fin (12 / 1)) true true true ((Fin (0 / 1)) :: (Fin (0 / 1)) :: (Fin (0 / 1)) :: (Fin (0 / 1)) :: (Fin (27 / 4)) :: (Fin (45 / 1)) :: nil)) (8234823117660275 / 562949953421312).
Proof. apply (A21_rio_fin _ (415 / 256)); [reflexivity | apply (A21_q_mid 415 256 8234823117660275 562949953421312); [vm_compute; reflexivity | unfold fr, close, ctol, A21_c, A21_e; interval with (i_prec 80)]]. Qed.
Lemma r_A21_589 : rio_reads A21_c A21_e A21_lo A21_hi floor_volts ctol (Build_rio (Fin (495 / 256)) (Fin (147 / 32)) (Fin (677 / 256)) (Fin (735 / 128)) (Fin (5902958103587057 / 590295810358705651712)) true true true ((Fin (493 / 256)) :: (Fin (1299 / 1024)) :: (Fin (325 / 512)) :: (Fin (18131 / 128)) :: (Fin (7463 / 1024)) :: (Fin (42075 / 512)) :: nil)) (6634302467080565 / 562949953421312).
Proof. apply (A21_rio_fin _ (495 / 256)); [reflexivity | apply (A21_q_mid 495 256 6634302467080565 562949953421312); [vm_compute; reflexivity | unfold fr, close, ctol, A21_c, A21_e; interval with (i_prec 80)]]. Qed.
Lemma r_A21_605 : rio_reads A21_c A21_e A21_lo A21_hi floor_volts ctol (Build_rio (Fin (575 / 256)) (Fin (2371 / 512)) (Fin (1375 / 512)) (Fin (6427 / 1024)) (Fin (12 / 1)) false false true ((Fin (2079 / 1024)) :: (Fin (1621 / 1024)) :: (Fin (1189 / 512)) :: (Fin (63559 / 1024)) :: (Fin (7021 / 1024)) :: (Fin (11447 / 128)) :: nil)) (10 / 1).
Proof. apply (A21_rio_fin _ (575 / 256)); [reflexivity | apply (A21_q_lo 575 256 10 1); [vm_compute; reflexivity | unfold fr, ctol, A21_lo, A21_c, A21_e; interval with (i_prec 80)]]. Qed.
Lemma r_A21_621 : rio_reads A21_c A21_e A21_lo A21_hi floor_volts ctol (Build_rio (Fin (655 / 256)) (Fin (5 / 1)) (Fin (3715469692580659 / 1125899906842624)) (Fin (6 / 1)) (Fin (12 / 1)) true true true ((Fin (0 / 1)) :: (Fin (0 / 1)) :: (Fin (0 / 1)) :: (Fin (0 / 1)) :: (Fin (27 / 4)) :: (Fin (45 / 1)) :: nil)) (10 / 1).
Proof. apply (A21_rio_fin _ (655 / 256)); [reflexivity | apply (A21_q_lo 655 256 10 1); [vm_compute; reflexivity | unfold fr, ctol, A21_lo, A21_c, A21_e; interval with (i_prec 80)]]. Qed.
Lemma r_A21_637 : rio_reads A21_c A21_e A21_lo A21_hi floor_volts ctol (Build_rio (Fin (735 / 256)) (Fin (4249 / 1024)) (Fin (57 / 16)) PInf (Fin (6647 / 512)) true true true ((Fin (1279 / 1024)) :: (Fin (1745 / 1024)) :: (Fin (2429 / 1024)) :: (Fin (165937 / 1024)) :: (Fin (1717 / 512)) :: (Fin ((-19823) / 1024)) :: nil)) (10 / 1).
Proof. apply (A21_rio_fin _ (735 / 256)); [reflexivity | apply (A21_q_lo 735 256 10 1); [vm_compute; reflexivity | unfold fr, ctol, A21_lo, A21_c, A21_e; interval with (i_prec 80)]]. Qed.
Lemma r_A21_653 : rio_reads A21_c A21_e A21_lo A21_hi floor_volts ctol (Build_rio (Fin (815 / 256)) (Fin ((-12) / 1)) (Fin (1657 / 512)) (Fin (8723 / 1024)) (Fin (3011 / 256)) false true false ((Fin (735 / 512)) :: (Fin (913 / 1024)) :: (Fin (807 / 1024)) :: (Fin (147523 / 1024)) :: (Fin (1693 / 512)) :: (Fin (7103 / 512)) :: nil)) (10 / 1).
Proof. apply (A21_rio_fin _ (815 / 256)); [reflexivity | apply (A21_q_lo 815 256 10 1); [vm_compute; reflexivity | unfold fr, ctol, A21_lo, A21_c, A21_e; interval with (i_prec 80)]]. Qed.
Lemma r_A21_669 : rio_reads A21_c A21_e A21_lo A21_hi floor_volts ctol (Build_rio (Fin (895 / 256)) (Fin (5 / 1)) (Fin (3715469692580659 / 1125899906842624)) (Fin (6 / 1)) (Fin (12 / 1)) true true true ((Fin (0 / 1)) :: (Fin (0 / 1)) :: (Fin (0 / 1)) :: (Fin (0 / 1)) :: (Fin (27 / 4)) :: (Fin (45 / 1)) :: nil)) (10 / 1).
Proof. apply (A21_rio_fin _ (895 / 256)); [reflexivity | apply (A21_q_lo 895 256 10 1); [vm_compute; reflexivity | unfold fr, ctol, A21_lo, A21_c, A21_e; interval with (i_prec 80)]]. Qed.
Lemma r_A21_685 : rio_reads A21_c A21_e A21_lo A21_hi floor_volts ctol (Build_rio (Fin (975 / 256)) (Fin (5047 / 1024)) (Fin (1 / 1)) (Fin (2511 / 512)) (Fin (12891 / 1024)) true false true ((Fin (1453 / 512)) :: (Fin (1985 / 1024)) :: (Fin (2783 / 1024)) :: (Fin (78375 / 1024)) :: (Fin (1357 / 256)) :: (Fin (11321 / 1024)) :: nil)) (10 / 1).
Proof. apply (A21_rio_fin _ (975 / 256)); [reflexivity | apply (A21_q_lo 975 256 10 1); [vm_compute; reflexivity | unfold fr, ctol, A21_lo, A21_c, A21_e; interval with (i_prec 80)]]. Qed.
Lemma r_A21_701 : rio_reads A21_c A21_e A21_lo A21_hi floor_volts ctol (Build_rio (Fin (1055 / 256)) (Fin (5 / 1)) (Fin (293 / 512)) (Fin (5433 / 1024)) (Fin (61 / 16)) true true true ((Fin (1003 / 512)) :: (Fin (1067 / 1024)) :: (Fin (2079 / 1024)) :: (Fin (184989 / 1024)) :: (Fin (7689 / 1024)) :: (Fin (94011 / 1024)) :: nil)) (10 / 1).
Proof. apply (A21_rio_fin _ (1055 / 256)); [reflexivity | apply (A21_q_lo 1055 256 10 1); [vm_compute; reflexivity | unfold fr, ctol, A21_lo, A21_c, A21_e; interval with (i_prec 80)]]. Qed.
Lemma r_A21_717 : rio_reads A21_c A21_e A21_lo A21_hi floor_volts ctol (Build_rio (Fin (1135 / 256)) (Fin (5 / 1)) (Fin (3715469692580659 / 1125899906842624)) (Fin (6 / 1)) (Fin (12 / 1)) true true true ((Fin (0 / 1)) :: (Fin (0 / 1)) :: (Fin (0 / 1)) :: (Fin (0 / 1)) :: (Fin (27 / 4)) :: (Fin (45 / 1)) :: nil)) (10 / 1).
Proof. apply (A21_rio_fin _ (1135 / 256)); [reflexivity | apply (A21_q_lo 1135 256 10 1); [vm_compute; reflexivity | unfold fr, ctol, A21_lo, A21_c, A21_e; interval with (i_prec 80)]]. Qed.
Lemma r_A21_733 : rio_reads A21_c A21_e A21_lo A21_hi floor_volts ctol (Build_rio (Fin (1215 / 256)) (Fin (1 / 202402253307310618352495346718917307049556649764142118356901358027430339567995346891960383701437124495187077864316811911389808737385793476867013399940738509921517424276566361364466907742093216341239767678472745068562007483424692698618103355649159556340810056512358769552333414615230502532186327508646006263307707741093494784)) (Fin (3019 / 1024)) (Fin (5109 / 1024)) (Fin ((-1) / 1)) false false false ((Fin (557 / 1024)) :: (Fin (1529 / 1024)) :: (Fin (1335 / 1024)) :: (Fin (9987 / 256)) :: (Fin (901 / 128)) :: (Fin (2043 / 512)) :: nil)) (10 / 1).
Proof. apply (A21_rio_fin _ (1215 / 256)); [reflexivity | apply (A21_q_lo 1215 256 10 1); [vm_compute; reflexivity | unfold fr, ctol, A21_lo, A21_c, A21_e; interval with (i_prec 80)]]. Qed.
Lemma r_A21_749 : rio_reads A21_c A21_e A21_lo A21_hi floor_volts ctol (Build_rio (Fin (6316109890198315 / 9007199254740992)) (Fin (5 / 1)) (Fin (217 / 128)) (Fin (6 / 1)) (Fin (13287 / 1024)) true true true ((Fin (1 / 16)) :: (Fin (1847 / 1024)) :: (Fin (803 / 512)) :: (Fin (19269 / 128)) :: (Fin (8839 / 1024)) :: (Fin (20193 / 1024)) :: nil)) (5751681203413073 / 140737488355328).
Proof. apply (A21_rio_fin _ (6316109890198315 / 9007199254740992)); [reflexivity | apply (A21_q_mid 6316109890198315 9007199254740992 5751681203413073 140737488355328); [vm_compute; reflexivity | unfold fr, close, ctol, A21_c, A21_e; interval with (i_prec 80)]]. Qed.
Lemma r_A21_765 : rio_reads A21_c A21_e A21_lo A21_hi floor_volts ctol (Build_rio (Fin (4806847324928627 / 1125899906842624)) (Fin (5 / 1)) (Fin (3715469692580659 / 1125899906842624)) (Fin (6 / 1)) (Fin (12 / 1)) true true true ((Fin (0 / 1)) :: (Fin (0 / 1)) :: (Fin (0 / 1)) :: (Fin (0 / 1)) :: (Fin (27 / 4)) :: (Fin (45 / 1)) :: nil)) (10 / 1).
Proof. apply (A21_rio_fin _ (4806847324928627 / 1125899906842624)); [reflexivity | apply (A21_q_lo 4806847324928627 1125899906842624 10 1); [vm_compute; reflexivity | unfold fr, ctol, A21_lo, A21_c, A21_e; interval with (i_prec 80)]]. Qed.
Lemma r_A21_781 : rio_reads A21_c A21_e A21_lo A21_hi floor_volts ctol (Build_rio (Fin (6533325437459785 / 4503599627370496)) (Fin (5 / 1)) (Fin (719 / 256)) (Fin (1125 / 128)) (Fin (11477 / 1024)) false true false ((Fin (549 / 512)) :: (Fin (685 / 512)) :: (Fin (1323 / 512)) :: (Fin (60125 / 512)) :: (Fin (2823 / 512)) :: (Fin (7793 / 512)) :: nil)) (4718008188905243 / 281474976710656).
Proof. apply (A21_rio_fin _ (6533325437459785 / 4503599627370496)); [reflexivity | apply (A21_q_mid 6533325437459785 4503599627370496 4718008188905243 281474976710656); [vm_compute; reflexivity | unfold fr, close, ctol, A21_c, A21_e; interval with (i_prec 80)]]. Qed.
Lemma r_A21_797 : rio_reads A21_c A21_e A21_lo A21_hi floor_volts ctol (Build_rio (Fin (819203283877105 / 2251799813685248)) (Fin (5 / 1)) (Fin (1575 / 512)) (Fin (6 / 1)) (Fin (355 / 256)) false true true ((Fin (3001 / 1024)) :: (Fin (139 / 128)) :: (Fin (1817 / 1024)) :: (Fin (127675 / 1024)) :: (Fin (3379 / 512)) :: (Fin (12895 / 512)) :: nil)) (80 / 1).
Proof. apply (A21_rio_fin _ (819203283877105 / 2251799813685248)); [reflexivity | apply (A21_q_hi 819203283877105 2251799813685248 80 1); [vm_compute; reflexivity | unfold fr, ctol, A21_hi, A21_c, A21_e; interval with (i_prec 80)]]. Qed.
Lemma r_A21_813 : rio_reads A21_c A21_e A21_lo A21_hi floor_volts ctol (Build_rio (Fin (4908268632919701 / 18014398509481984)) (Fin (5 / 1)) (Fin (3715469692580659 / 1125899906842624)) (Fin (6 / 1)) (Fin (12 / 1)) true true true ((Fin (0 / 1)) :: (Fin (0 / 1)) :: (Fin (0 / 1)) :: (Fin (0 / 1)) :: (Fin (27 / 4)) :: (Fin (45 / 1)) :: nil)) (80 / 1).
Proof. apply (A21_rio_fin _ (4908268632919701 / 18014398509481984)); [reflexivity | apply (A21_q_hi 4908268632919701 18014398509481984 80 1); [vm_compute; reflexivity | unfold fr, ctol, A21_hi, A21_c, A21_e; interval with (i_prec 80)]]. Qed.
Lemma r_A21_837 : rio_reads A21_c A21_e A21_lo A21_hi floor_volts ctol (Build_rio (Fin (7427603091075111 / 590295810358705651712)) (Fin (5 / 1)) (Fin (3715469692580659 / 1125899906842624)) (Fin (6 / 1)) (Fin (12 / 1)) true true true ((Fin (0 / 1)) :: (Fin (0 / 1)) :: (Fin (0 / 1)) :: (Fin (0 / 1)) :: (Fin (27 / 4)) :: (Fin (45 / 1)) :: nil)) (80 / 1).
Proof. apply (A21_rio_fin _ (7427603091075111 / 590295810358705651712)); [reflexivity | apply (A21_q_hi 7427603091075111 590295810358705651712 80 1); [vm_compute; reflexivity | unfold fr, ctol, A21_hi, A21_c, A21_e; interval with (i_prec 80)]]. Qed.
Lemma d_A21_671u : close ctol (5358090456764289 / 9007199254740992) (volts_A21 (50 / 1)).
Proof. apply (A21_q_volts_mid 50 1 5358090456764289 9007199254740992); [vm_compute; reflexivity | unfold fr, close, ctol, A21_lo, A21_hi, A21_c, A21_e; interval with (i_prec 80)]. Qed.
Lemma d_A21_679u : close ctol (5138554465803671 / 4503599627370496) (volts_A21 (45 / 2)).
Proof. apply (A21_q_volts_mid 45 2 5138554465803671 4503599627370496); [vm_compute; reflexivity | unfold fr, close, ctol, A21_lo, A21_hi, A21_c, A21_e; interval with (i_prec 80)]. Qed.
Lemma d_A21_687u : close ctol (2489100355631953 / 1125899906842624) (volts_A21 (0 / 1)).
Proof. apply (A21_q_volts_lo 0 1 2489100355631953 1125899906842624); [vm_compute; reflexivity | unfold fr, close, ctol, A21_lo, A21_hi, A21_c, A21_e; interval with (i_prec 80)]. Qed.
Lemma d_A21_695u : close ctol (2489100355631953 / 1125899906842624) (volts_A21 (5 / 1)).
Proof. apply (A21_q_volts_lo 5 1 2489100355631953 1125899906842624); [vm_compute; reflexivity | unfold fr, close, ctol, A21_lo, A21_hi, A21_c, A21_e; interval with (i_prec 80)]. Qed.
Lemma d_A21_703u : close ctol (7303775102731699 / 18014398509481984) (volts_A21 (1000 / 1)).
Proof. apply (A21_q_volts_hi 1000 1 7303775102731699 18014398509481984); [vm_compute; reflexivity | unfold fr, close, ctol, A21_lo, A21_hi, A21_c, A21_e; interval with (i_prec 80)]. Qed.
Lemma d_A21_711u : close ctol (2489100355631953 / 1125899906842624) (volts_A21 (5629499534213119 / 562949953421312)).
Proof. apply (A21_q_volts_lo 5629499534213119 562949953421312 2489100355631953 1125899906842624); [vm_compute; reflexivity | unfold fr, close, ctol, A21_lo, A21_hi, A21_c, A21_e; interval with (i_prec 80)]. Qed.
Lemma d_A21_719u : close ctol (7303775102731699 / 18014398509481984) (volts_A21 (80 / 1)).
Proof. apply (A21_q_volts_hi 80 1 7303775102731699 18014398509481984); [vm_compute; reflexivity | unfold fr, close, ctol, A21_lo, A21_hi, A21_c, A21_e; interval with (i_prec 80)]. Qed.
Lemma d_A21_728r : rio_reads A21_c A21_e A21_lo A21_hi floor_volts ctol (Build_rio (Fin (7303775102731699 / 18014398509481984)) (Fin (1319 / 256)) (Fin (4313 / 1024)) (Fin (6 / 1)) (Fin (7769 / 1024)) true true true ((Fin (2765 / 1024)) :: (Fin (1765 / 1024)) :: (Fin (3003 / 1024)) :: (Fin (14831 / 256)) :: (Fin (5029 / 1024)) :: (Fin (549 / 256)) :: nil)) (80 / 1).
Proof. apply (A21_rio_fin _ (7303775102731699 / 18014398509481984)); [reflexivity | apply (A21_q_hi 7303775102731699 18014398509481984 80 1); [vm_compute; reflexivity | unfold fr, ctol, A21_hi, A21_c, A21_e; interval with (i_prec 80)]]. Qed.
Lemma d_A21_741u : close ctol (7303775102731699 / 18014398509481984) (volts_A21 (1546025403569033 / 17592186044416)).
Proof. apply (A21_q_volts_hi 1546025403569033 17592186044416 7303775102731699 18014398509481984); [vm_compute; reflexivity | unfold fr, close, ctol, A21_lo, A21_hi, A21_c, A21_e; interval with (i_prec 80)]. Qed.
Lemma d_A21_754u : close ctol (2489100355631953 / 1125899906842624) (volts_A21 (498284858283037 / 140737488355328)).
Proof. apply (A21_q_volts_lo 498284858283037 140737488355328 2489100355631953 1125899906842624); [vm_compute; reflexivity | unfold fr, close, ctol, A21_lo, A21_hi, A21_c, A21_e; interval with (i_prec 80)]. Qed.
Lemma d_A21_767u : close ctol (1842452920102981 / 4503599627370496) (volts_A21 (695964949922241 / 8796093022208)).
Proof. apply (A21_q_volts_mid 695964949922241 8796093022208 1842452920102981 4503599627370496); [vm_compute; reflexivity | unfold fr, close, ctol, A21_lo, A21_hi, A21_c, A21_e; interval with (i_prec 80)]. Qed.
Lemma d_A21_780u : close ctol (5901439357400127 / 9007199254740992) (volts_A21 (1562757797826255 / 35184372088832)).
Proof. apply (A21_q_volts_mid 1562757797826255 35184372088832 5901439357400127 9007199254740992); [vm_compute; reflexivity | unfold fr, close, ctol, A21_lo, A21_hi, A21_c, A21_e; interval with (i_prec 80)]. Qed.
Lemma d_A21_792r : rio_reads A21_c A21_e A21_lo A21_hi floor_volts ctol (Build_rio (Fin (5898397611701453 / 4503599627370496)) (Fin (2435 / 512)) (Fin (3715469692580659 / 1125899906842624)) (Fin (6 / 1)) (Fin (12883 / 1024)) true false false ((Fin (437 / 1024)) :: (Fin (1135 / 1024)) :: (Fin (353 / 512)) :: (Fin (165669 / 1024)) :: (Fin (8751 / 1024)) :: (Fin (325 / 4)) :: nil)) (19 / 1).
Proof. apply (A21_rio_fin _ (5898397611701453 / 4503599627370496)); [reflexivity | apply (A21_q_mid 5898397611701453 4503599627370496 19 1); [vm_compute; reflexivity | unfold fr, close, ctol, A21_c, A21_e; interval with (i_prec 80)]]. Qed.
Lemma d_A21_805u : close ctol (7303775102731699 / 18014398509481984) (volts_A21 (2449242728751001 / 4398046511104)).
Proof. apply (A21_q_volts_hi 2449242728751001 4398046511104 7303775102731699 18014398509481984); [vm_compute; reflexivity | unfold fr, close, ctol, A21_lo, A21_hi, A21_c, A21_e; interval with (i_prec 80)]. Qed.
Lemma d_A21_818u : close ctol (4068043185377369 / 9007199254740992) (volts_A21 (2465922536672661 / 35184372088832)).
Proof. apply (A21_q_volts_mid 2465922536672661 35184372088832 4068043185377369 9007199254740992); [vm_compute; reflexivity | unfold fr, close, ctol, A21_lo, A21_hi, A21_c, A21_e; interval with (i_prec 80)]. Qed.
Lemma d_A21_831u : close ctol (7303775102731699 / 18014398509481984) (volts_A21 (90 / 1)).
Proof. apply (A21_q_volts_hi 90 1 7303775102731699 18014398509481984); [vm_compute; reflexivity | unfold fr, close, ctol, A21_lo, A21_hi, A21_c, A21_e; interval with (i_prec 80)]. Qed.
Lemma d_A21_844u : close ctol (8451482832871667 / 18014398509481984) (volts_A21 (4707161922839461 / 70368744177664)).
Proof. apply (A21_q_volts_mid 4707161922839461 70368744177664 8451482832871667 18014398509481984); [vm_compute; reflexivity | unfold fr, close, ctol, A21_lo, A21_hi, A21_c, A21_e; interval with (i_prec 80)]. Qed.
Lemma d_A21_856r : rio_reads A21_c A21_e A21_lo A21_hi floor_volts ctol (Build_rio (Fin (546287574741675 / 562949953421312)) (Fin (5 / 1)) (Fin (3197 / 1024)) (Fin (1613 / 256)) (Fin (12501 / 1024)) false true false ((Fin (1497 / 512)) :: (Fin (1383 / 1024)) :: (Fin (1171 / 1024)) :: (Fin (67887 / 1024)) :: (Fin (4927 / 1024)) :: (Fin (91743 / 1024)) :: nil)) (7724074721788083 / 281474976710656).
Proof. apply (A21_rio_fin _ (546287574741675 / 562949953421312)); [reflexivity | apply (A21_q_mid 546287574741675 562949953421312 7724074721788083 281474976710656); [vm_compute; reflexivity | unfold fr, close, ctol, A21_c, A21_e; interval with (i_prec 80)]]. Qed.
Lemma d_A21_869u : close ctol (2619694241516799 / 4503599627370496) (volts_A21 (7232827277301929 / 140737488355328)).
Proof. apply (A21_q_volts_mid 7232827277301929 140737488355328 2619694241516799 4503599627370496); [vm_compute; reflexivity | unfold fr, close, ctol, A21_lo, A21_hi, A21_c, A21_e; interval with (i_prec 80)]. Qed.
Lemma d_A21_882u : close ctol (7303775102731699 / 18014398509481984) (volts_A21 (808065589029505 / 4398046511104)).
Proof. apply (A21_q_volts_hi 808065589029505 4398046511104 7303775102731699 18014398509481984); [vm_compute; reflexivity | unfold fr, close, ctol, A21_lo, A21_hi, A21_c, A21_e; interval with (i_prec 80)]. Qed.
Lemma d_A21_895u : close ctol (7303775102731699 / 18014398509481984) (volts_A21 (4896760440448923 / 35184372088832)).
Proof. apply (A21_q_volts_hi 4896760440448923 35184372088832 7303775102731699 18014398509481984); [vm_compute; reflexivity | unfold fr, close, ctol, A21_lo, A21_hi, A21_c, A21_e; interval with (i_prec 80)]. Qed.
Lemma d_A21_908u : close ctol (5223157335281757 / 4503599627370496) (volts_A21 (3103825850144849 / 140737488355328)).
Proof. apply (A21_q_volts_mid 3103825850144849 140737488355328 5223157335281757 4503599627370496); [vm_compute; reflexivity | unfold fr, close, ctol, A21_lo, A21_hi, A21_c, A21_e; interval with (i_prec 80)]. Qed.
Lemma d_A21_920r : rio_reads A21_c A21_e A21_lo A21_hi floor_volts ctol (Build_rio (Fin (2489100355631953 / 1125899906842624)) (Fin (1225 / 256)) (Fin (3715469692580659 / 1125899906842624)) (Fin (10349 / 1024)) (Fin (10751 / 1024)) false true false ((Fin (2481 / 1024)) :: (Fin (53 / 128)) :: (Fin (2621 / 1024)) :: (Fin (8225 / 64)) :: (Fin (8049 / 1024)) :: (Fin (30505 / 512)) :: nil)) (10 / 1).
Proof. apply (A21_rio_fin _ (2489100355631953 / 1125899906842624)); [reflexivity | apply (A21_q_lo 2489100355631953 1125899906842624 10 1); [vm_compute; reflexivity | unfold fr, ctol, A21_lo, A21_c, A21_e; interval with (i_prec 80)]]. Qed.
Lemma d_A21_933u : close ctol (4145564273321809 / 4503599627370496) (volts_A21 (8240541931634019 / 281474976710656)).
Proof. apply (A21_q_volts_mid 8240541931634019 281474976710656 4145564273321809 4503599627370496); [vm_compute; reflexivity | unfold fr, close, ctol, A21_lo, A21_hi, A21_c, A21_e; interval with (i_prec 80)]. Qed.
Lemma d_A21_946u : close ctol (3242967451581887 / 2251799813685248) (volts_A21 (4760306783263873 / 281474976710656)).
Proof. apply (A21_q_volts_mid 4760306783263873 281474976710656 3242967451581887 2251799813685248); [vm_compute; reflexivity | unfold fr, close, ctol, A21_lo, A21_hi, A21_c, A21_e; interval with (i_prec 80)]. Qed.
Lemma d_A21_959u : close ctol (5126661371334497 / 9007199254740992) (volts_A21 (7428290030955331 / 140737488355328)).
Proof. apply (A21_q_volts_mid 7428290030955331 140737488355328 5126661371334497 9007199254740992); [vm_compute; reflexivity | unfold fr, close, ctol, A21_lo, A21_hi, A21_c, A21_e; interval with (i_prec 80)]. Qed.
Lemma d_A21_972u : close ctol (4857937768300019 / 9007199254740992) (volts_A21 (7935166138020261 / 140737488355328)).
Proof. apply (A21_q_volts_mid 7935166138020261 140737488355328 4857937768300019 9007199254740992); [vm_compute; reflexivity | unfold fr, close, ctol, A21_lo, A21_hi, A21_c, A21_e; interval with (i_prec 80)]. Qed.
Lemma d_A21_984r : rio_reads A21_c A21_e A21_lo A21_hi floor_volts ctol (Build_rio (Fin (3516877838221165 / 4503599627370496)) (Fin (12843 / 1024)) (Fin (3715469692580659 / 1125899906842624)) (Fin (1545 / 256)) (Fin (2445 / 256)) false true true ((Fin (3 / 4)) :: (Fin (1297 / 1024)) :: (Fin (897 / 512)) :: (Fin (177681 / 1024)) :: (Fin (5609 / 1024)) :: (Fin (13659 / 512)) :: nil)) (2520371219991577 / 70368744177664).
Proof. apply (A21_rio_fin _ (3516877838221165 / 4503599627370496)); [reflexivity | apply (A21_q_mid 3516877838221165 4503599627370496 2520371219991577 70368744177664); [vm_compute; reflexivity | unfold fr, close, ctol, A21_c, A21_e; interval with (i_prec 80)]]. Qed.
Lemma d_A21_997u : close ctol (3423735903558647 / 4503599627370496) (volts_A21 (2604689896622813 / 70368744177664)).
Proof. apply (A21_q_volts_mid 2604689896622813 70368744177664 3423735903558647 4503599627370496); [vm_compute; reflexivity | unfold fr, close, ctol, A21_lo, A21_hi, A21_c, A21_e; interval with (i_prec 80)]. Qed.
Lemma d_A21_1010u : close ctol (2489100355631953 / 1125899906842624) (volts_A21 (882494527350899 / 1125899906842624)).
Proof. apply (A21_q_volts_lo 882494527350899 1125899906842624 2489100355631953 1125899906842624); [vm_compute; reflexivity | unfold fr, close, ctol, A21_lo, A21_hi, A21_c, A21_e; interval with (i_prec 80)]. Qed.
Lemma d_A21_1023u : close ctol (7528686869124539 / 18014398509481984) (volts_A21 (1356004457942847 / 17592186044416)).
Proof. apply (A21_q_volts_mid 1356004457942847 17592186044416 7528686869124539 18014398509481984); [vm_compute; reflexivity | unfold fr, close, ctol, A21_lo, A21_hi, A21_c, A21_e; interval with (i_prec 80)]. Qed.
Lemma d_A21_1036u : close ctol (2489100355631953 / 1125899906842624) (volts_A21 ((-3) / 1)).
Proof. apply (A21_q_volts_lo (-3) 1 2489100355631953 1125899906842624); [vm_compute; reflexivity | unfold fr, close, ctol, A21_lo, A21_hi, A21_c, A21_e; interval with (i_prec 80)]. Qed.
Lemma d_A21_1048r : rio_reads A21_c A21_e A21_lo A21_hi floor_volts ctol (Build_rio (Fin (8331134381461563 / 18014398509481984)) (Fin (5 / 1)) (Fin (3475 / 1024)) (Fin (1477 / 256)) (Fin (12599 / 1024)) true false true ((Fin (633 / 256)) :: (Fin (199 / 128)) :: (Fin (2677 / 1024)) :: (Fin (201989 / 1024)) :: (Fin (7557 / 1024)) :: (Fin (43213 / 1024)) :: nil)) (2395331463557251 / 35184372088832).
Proof. apply (A21_rio_fin _ (8331134381461563 / 18014398509481984)); [reflexivity | apply (A21_q_mid 8331134381461563 18014398509481984 2395331463557251 35184372088832); [vm_compute; reflexivity | unfold fr, close, ctol, A21_c, A21_e; interval with (i_prec 80)]]. Qed.
Lemma d_A21_1061u : close ctol (2688828133335605 / 4503599627370496) (volts_A21 (7005498509722655 / 140737488355328)).
Proof. apply (A21_q_volts_mid 7005498509722655 140737488355328 2688828133335605 4503599627370496); [vm_compute; reflexivity | unfold fr, close, ctol, A21_lo, A21_hi, A21_c, A21_e; interval with (i_prec 80)]. Qed.
Lemma d_A21_1074u : close ctol (7635457782780807 / 9007199254740992) (volts_A21 (2279083867796217 / 70368744177664)).
Proof. apply (A21_q_volts_mid 2279083867796217 70368744177664 7635457782780807 9007199254740992); [vm_compute; reflexivity | unfold fr, close, ctol, A21_lo, A21_hi, A21_c, A21_e; interval with (i_prec 80)]. Qed.
Lemma d_A21_1087u : close ctol (3083045550454669 / 2251799813685248) (volts_A21 (5064786575407693 / 281474976710656)).
Proof. apply (A21_q_volts_mid 5064786575407693 281474976710656 3083045550454669 2251799813685248); [vm_compute; reflexivity | unfold fr, close, ctol, A21_lo, A21_hi, A21_c, A21_e; interval with (i_prec 80)]. Qed.
Lemma d_A21_1100u : close ctol (1966708241758847 / 4503599627370496) (volts_A21 (2569793234230839 / 35184372088832)).
Proof. apply (A21_q_volts_mid 2569793234230839 35184372088832 1966708241758847 4503599627370496); [vm_compute; reflexivity | unfold fr, close, ctol, A21_lo, A21_hi, A21_c, A21_e; interval with (i_prec 80)]. Qed.
Lemma d_A21_1112r : rio_reads A21_c A21_e A21_lo A21_hi floor_volts ctol (Build_rio (Fin (7303775102731699 / 18014398509481984)) (Fin (5057 / 1024)) (Fin (3463 / 1024)) (Fin (6 / 1)) (Fin (11609 / 1024)) true true true ((Fin (2737 / 1024)) :: (Fin (23 / 1024)) :: (Fin (2911 / 1024)) :: (Fin (100757 / 1024)) :: (Fin (839 / 128)) :: (Fin (28271 / 512)) :: nil)) (80 / 1).
Proof. apply (A21_rio_fin _ (7303775102731699 / 18014398509481984)); [reflexivity | apply (A21_q_hi 7303775102731699 18014398509481984 80 1); [vm_compute; reflexivity | unfold fr, ctol, A21_hi, A21_c, A21_e; interval with (i_prec 80)]]. Qed.
Lemma d_A21_1125u : close ctol (6550916397020311 / 9007199254740992) (volts_A21 (343747704387317 / 8796093022208)).
Proof. apply (A21_q_volts_mid 343747704387317 8796093022208 6550916397020311 9007199254740992); [vm_compute; reflexivity | unfold fr, close, ctol, A21_lo, A21_hi, A21_c, A21_e; interval with (i_prec 80)]. Qed.
Lemma d_A21_1138u : close ctol (7807647970124407 / 18014398509481984) (volts_A21 (1296848083308559 / 17592186044416)).
Proof. apply (A21_q_volts_mid 1296848083308559 17592186044416 7807647970124407 18014398509481984); [vm_compute; reflexivity | unfold fr, close, ctol, A21_lo, A21_hi, A21_c, A21_e; interval with (i_prec 80)]. Qed.
Lemma d_A21_1151u : close ctol (7303775102731699 / 18014398509481984) (volts_A21 (2209585555036365 / 17592186044416)).
Proof. apply (A21_q_volts_hi 2209585555036365 17592186044416 7303775102731699 18014398509481984); [vm_compute; reflexivity | unfold fr, close, ctol, A21_lo, A21_hi, A21_c, A21_e; interval with (i_prec 80)]. Qed.
Lemma d_A21_1164u : close ctol (8867572856266341 / 18014398509481984) (volts_A21 (4437825770546885 / 70368744177664)).
Proof. apply (A21_q_volts_mid 4437825770546885 70368744177664 8867572856266341 18014398509481984); [vm_compute; reflexivity | unfold fr, close, ctol, A21_lo, A21_hi, A21_c, A21_e; interval with (i_prec 80)]. Qed.
Lemma d_A21_1176r : rio_reads A21_c A21_e A21_lo A21_hi floor_volts ctol (Build_rio (Fin (8302126700547053 / 4503599627370496)) (Fin (4603 / 1024)) (Fin (3715469692580659 / 1125899906842624)) (Fin (5213 / 1024)) (Fin (12 / 1)) true true true ((Fin (2187 / 1024)) :: (Fin (915 / 512)) :: (Fin (223 / 128)) :: (Fin (125115 / 1024)) :: (Fin (1735 / 256)) :: (Fin (8947 / 1024)) :: nil)) (3517119953331037 / 281474976710656).
Proof. apply (A21_rio_fin _ (8302126700547053 / 4503599627370496)); [reflexivity | apply (A21_q_mid 8302126700547053 4503599627370496 3517119953331037 281474976710656); [vm_compute; reflexivity | unfold fr, close, ctol, A21_c, A21_e; interval with (i_prec 80)]]. Qed.
Lemma d_A21_1189u : close ctol (4491762266698491 / 9007199254740992) (volts_A21 (4367703658935779 / 70368744177664)).
Proof. apply (A21_q_volts_mid 4367703658935779 70368744177664 4491762266698491 9007199254740992); [vm_compute; reflexivity | unfold fr, close, ctol, A21_lo, A21_hi, A21_c, A21_e; interval with (i_prec 80)]. Qed.
Lemma d_A21_1202u : close ctol (7303775102731699 / 18014398509481984) (volts_A21 (124 / 1)).
Proof. apply (A21_q_volts_hi 124 1 7303775102731699 18014398509481984); [vm_compute; reflexivity | unfold fr, close, ctol, A21_lo, A21_hi, A21_c, A21_e; interval with (i_prec 80)]. Qed.
Lemma d_A21_1215u : close ctol (2489100355631953 / 1125899906842624) (volts_A21 (4966697337447379 / 562949953421312)).
Proof. apply (A21_q_volts_lo 4966697337447379 562949953421312 2489100355631953 1125899906842624); [vm_compute; reflexivity | unfold fr, close, ctol, A21_lo, A21_hi, A21_c, A21_e; interval with (i_prec 80)]. Qed.
Lemma d_A21_1228u : close ctol (7537124263410389 / 9007199254740992) (volts_A21 (1157795778175191 / 35184372088832)).
Proof. apply (A21_q_volts_mid 1157795778175191 35184372088832 7537124263410389 9007199254740992); [vm_compute; reflexivity | unfold fr, close, ctol, A21_lo, A21_hi, A21_c, A21_e; interval with (i_prec 80)]. Qed.
Lemma d_A21_1240r : rio_reads A21_c A21_e A21_lo A21_hi floor_volts ctol (Build_rio (Fin (587285254308667 / 281474976710656)) (Fin (4489 / 1024)) PInf (Fin (6 / 1)) (Fin (2515 / 256)) false true false ((Fin (77 / 256)) :: (Fin (1969 / 1024)) :: (Fin (673 / 256)) :: (Fin (21715 / 128)) :: (Fin (2403 / 512)) :: (Fin (66207 / 1024)) :: nil)) (47214268653967 / 4398046511104).
Proof. apply (A21_rio_fin _ (587285254308667 / 281474976710656)); [reflexivity | apply (A21_q_mid 587285254308667 281474976710656 47214268653967 4398046511104); [vm_compute; reflexivity | unfold fr, close, ctol, A21_c, A21_e; interval with (i_prec 80)]]. Qed.
Lemma d_A21_1253u : close ctol (3814423178530241 / 2251799813685248) (volts_A21 (975346136621525 / 70368744177664)).
Proof. apply (A21_q_volts_mid 975346136621525 70368744177664 3814423178530241 2251799813685248); [vm_compute; reflexivity | unfold fr, close, ctol, A21_lo, A21_hi, A21_c, A21_e; interval with (i_prec 80)]. Qed.
Lemma d_A21_1266u : close ctol (7303775102731699 / 18014398509481984) (volts_A21 (4144409258581273 / 35184372088832)).
Proof. apply (A21_q_volts_hi 4144409258581273 35184372088832 7303775102731699 18014398509481984); [vm_compute; reflexivity | unfold fr, close, ctol, A21_lo, A21_hi, A21_c, A21_e; interval with (i_prec 80)]. Qed.
Lemma d_A21_1279u : close ctol (6555186415489737 / 9007199254740992) (volts_A21 (5495571263513539 / 140737488355328)).
Proof. apply (A21_q_volts_mid 5495571263513539 140737488355328 6555186415489737 9007199254740992); [vm_compute; reflexivity | unfold fr, close, ctol, A21_lo, A21_hi, A21_c, A21_e; interval with (i_prec 80)]. Qed.
Lemma d_A21_1292u : close ctol (7303775102731699 / 18014398509481984) (volts_A21 (1023766273321177 / 4398046511104)).
Proof. apply (A21_q_volts_hi 1023766273321177 4398046511104 7303775102731699 18014398509481984); [vm_compute; reflexivity | unfold fr, close, ctol, A21_lo, A21_hi, A21_c, A21_e; interval with (i_prec 80)]. Qed.
Lemma d_A21_1304r : rio_reads A21_c A21_e A21_lo A21_hi floor_volts ctol (Build_rio (Fin (2489100355631953 / 1125899906842624)) (Fin (1055 / 256)) (Fin (3119 / 1024)) (Fin (5083 / 1024)) (Fin (12417 / 1024)) true true true ((Fin (2319 / 1024)) :: (Fin (161 / 128)) :: (Fin (543 / 1024)) :: (Fin (87939 / 1024)) :: (Fin (5517 / 1024)) :: (Fin (95231 / 1024)) :: nil)) (10 / 1).
Proof. apply (A21_rio_fin _ (2489100355631953 / 1125899906842624)); [reflexivity | apply (A21_q_lo 2489100355631953 1125899906842624 10 1); [vm_compute; reflexivity | unfold fr, ctol, A21_lo, A21_c, A21_e; interval with (i_prec 80)]]. Qed.
Lemma d_A21_1317u : close ctol (304227512656121 / 281474976710656) (volts_A21 (1692002098391975 / 70368744177664)).
Proof. apply (A21_q_volts_mid 1692002098391975 70368744177664 304227512656121 281474976710656); [vm_compute; reflexivity | unfold fr, close, ctol, A21_lo, A21_hi, A21_c, A21_e; interval with (i_prec 80)]. Qed.
Lemma d_A21_1330u : close ctol (8298100069429299 / 18014398509481984) (volts_A21 (601756868923089 / 8796093022208)).
Proof. apply (A21_q_volts_mid 601756868923089 8796093022208 8298100069429299 18014398509481984); [vm_compute; reflexivity | unfold fr, close, ctol, A21_lo, A21_hi, A21_c, A21_e; interval with (i_prec 80)]. Qed.
Lemma r_A41_875 : rio_reads A41_c A41_e A41_lo A41_hi floor_volts ctol (Build_rio (Fin (1152921504606847 / 1152921504606846976)) PInf (Fin (3715469692580659 / 1125899906842624)) (Fin (6 / 1)) (Fin (12 / 1)) true true true ((Fin (0 / 1)) :: (Fin (0 / 1)) :: (Fin (0 / 1)) :: (Fin (0 / 1)) :: (Fin (27 / 4)) :: (Fin (45 / 1)) :: nil)) (35 / 1).
Proof. apply (A41_rio_fin _ (1152921504606847 / 1152921504606846976)); [reflexivity | apply (A41_q_hi 1152921504606847 1152921504606846976 35 1); [vm_compute; reflexivity | unfold fr, ctol, A41_hi, A41_c, A41_e; interval with (i_prec 80)]]. Qed.
Lemma r_A41_893 : rio_reads A41_c A41_e A41_lo A41_hi floor_volts ctol (Build_rio (Fin (3248767677756535 / 9007199254740992)) (Fin (5 / 1)) (Fin (3715469692580659 / 1125899906842624)) (Fin (11 / 2)) (Fin (12 / 1)) true true true ((Fin (0 / 1)) :: (Fin (0 / 1)) :: (Fin (0 / 1)) :: (Fin (0 / 1)) :: (Fin (27 / 4)) :: (Fin (45 / 1)) :: nil)) (4920977766406783 / 140737488355328).
Proof. apply (A41_rio_fin _ (3248767677756535 / 9007199254740992)); [reflexivity | apply (A41_q_mid 3248767677756535 9007199254740992 4920977766406783 140737488355328); [vm_compute; reflexivity | unfold fr, close, ctol, A41_c, A41_e; interval with (i_prec 80)]]. Qed.
Lemma r_A41_909 : rio_reads A41_c A41_e A41_lo A41_hi floor_volts ctol (Build_rio (Fin (11905 / 4096)) (Fin (5 / 1)) (Fin (3715469692580659 / 1125899906842624)) (Fin (6 / 1)) (Fin (12 / 1)) true true true ((Fin (0 / 1)) :: (Fin (0 / 1)) :: (Fin (0 / 1)) :: (Fin (0 / 1)) :: (Fin (25 / 4)) :: (Fin (45 / 1)) :: nil)) (5068163974298905 / 1125899906842624).
Proof. apply (A41_rio_fin _ (11905 / 4096)); [reflexivity | apply (A41_q_mid 11905 4096 5068163974298905 1125899906842624); [vm_compute; reflexivity | unfold fr, close, ctol, A41_c, A41_e; interval with (i_prec 80)]]. Qed.
Lemma r_A41_925 : rio_reads A41_c A41_e A41_lo A41_hi floor_volts ctol (Build_rio (Fin (55 / 256)) (Fin (5 / 1)) (Fin (3715469692580659 / 1125899906842624)) (Fin (6 / 1)) (Fin (12 / 1)) true true true ((Fin (0 / 1)) :: (Fin (0 / 1)) :: (Fin (0 / 1)) :: (Fin (0 / 1)) :: (Fin (27 / 4)) :: (Fin (45 / 1)) :: nil)) (35 / 1).
Proof. apply (A41_rio_fin _ (55 / 256)); [reflexivity | apply (A41_q_hi 55 256 35 1); [vm_compute; reflexivity | unfold fr, ctol, A41_hi, A41_c, A41_e; interval with (i_prec 80)]]. Qed.
Lemma r_A41_941 : rio_reads A41_c A41_e A41_lo A41_hi floor_volts ctol (Build_rio (Fin (135 / 256)) (Fin (5 / 1)) (Fin (1823 / 512)) (Fin (6617 / 1024)) (Fin (3033 / 256)) true false true ((Fin (2189 / 1024)) :: (Fin (405 / 1024)) :: (Fin (791 / 512)) :: (Fin (114039 / 1024)) :: (Fin (6397 / 1024)) :: (Fin ((-10293) / 1024)) :: nil)) (847090627070033 / 35184372088832).
Proof. apply (A41_rio_fin _ (135 / 256)); [reflexivity | apply (A41_q_mid 135 256 847090627070033 35184372088832); [vm_compute; reflexivity | unfold fr, close, ctol, A41_c, A41_e; interval with (i_prec 80)]]. Qed.
Lemma r_A41_957 : rio_reads A41_c A41_e A41_lo A41_hi floor_volts ctol (Build_rio (Fin (215 / 256)) (Fin ((-1) / 1)) (Fin (2809 / 1024)) (Fin (1023 / 512)) (Fin (13161 / 1024)) true true false ((Fin (987 / 512)) :: (Fin (503 / 1024)) :: (Fin (613 / 1024)) :: (Fin (59803 / 1024)) :: (Fin (6377 / 1024)) :: (Fin (74817 / 1024)) :: nil)) (1072536851639461 / 70368744177664).
Proof. apply (A41_rio_fin _ (215 / 256)); [reflexivity | apply (A41_q_mid 215 256 1072536851639461 70368744177664); [vm_compute; reflexivity | unfold fr, close, ctol, A41_c, A41_e; interval with (i_prec 80)]]. Qed.
Lemma r_A41_973 : rio_reads A41_c A41_e A41_lo A41_hi floor_volts ctol (Build_rio (Fin (295 / 256)) (Fin (5 / 1)) (Fin (3715469692580659 / 1125899906842624)) (Fin (6 / 1)) (Fin (12 / 1)) true true true ((Fin (0 / 1)) :: (Fin (0 / 1)) :: (Fin (0 / 1)) :: (Fin (0 / 1)) :: (Fin (27 / 4)) :: (Fin (45 / 1)) :: nil)) (3144174267474809 / 281474976710656).
Proof. apply (A41_rio_fin _ (295 / 256)); [reflexivity | apply (A41_q_mid 295 256 3144174267474809 281474976710656); [vm_compute; reflexivity | unfold fr, close, ctol, A41_c, A41_e; interval with (i_prec 80)]]. Qed.
Lemma r_A41_989 : rio_reads A41_c A41_e A41_lo A41_hi floor_volts ctol (Build_rio (Fin (375 / 256)) (Fin (559 / 256)) (Fin (1697 / 512)) (Fin (100000000000000001097906362944045541740492309677311846336810682903157585404911491537163328978494688899061249669721172515611590283743140088328307009198146046031271664502933027185697489699588559043338384466165001178426897626212945177628091195786707458122783970171784415105291802893207873272974885715430223118336 / 1)) (Fin (5727 / 512)) true false true ((Fin (303 / 512)) :: (Fin (707 / 512)) :: (Fin (1429 / 1024)) :: (Fin (48353 / 512)) :: (Fin (5183 / 1024)) :: (Fin (1685 / 128)) :: nil)) (4967769488660833 / 562949953421312).
Proof. apply (A41_rio_fin _ (375 / 256)); [reflexivity | apply (A41_q_mid 375 256 4967769488660833 562949953421312); [vm_compute; reflexivity | unfold fr, close, ctol, A41_c, A41_e; interval with (i_prec 80)]]. Qed.
Lemma r_A41_1005 : rio_reads A41_c A41_e A41_lo A41_hi floor_volts ctol (Build_rio (Fin (455 / 256)) (Fin (9799 / 1024)) (Fin (1301 / 512)) (Fin (4691 / 512)) (Fin (12 / 1)) true false true ((Fin (2897 / 1024)) :: (Fin (243 / 1024)) :: (Fin (2907 / 1024)) :: (Fin (132841 / 1024)) :: (Fin (5815 / 1024)) :: (Fin (84823 / 1024)) :: nil)) (8216547169324073 / 1125899906842624).
Proof. apply (A41_rio_fin _ (455 / 256)); [reflexivity | apply (A41_q_mid 455 256 8216547169324073 1125899906842624); [vm_compute; reflexivity | unfold fr, close, ctol, A41_c, A41_e; interval with (i_prec 80)]]. Qed.
Lemma r_A41_1021 : rio_reads A41_c A41_e A41_lo A41_hi floor_volts ctol (Build_rio (Fin (535 / 256)) (Fin (5 / 1)) (Fin (3715469692580659 / 1125899906842624)) (Fin (6 / 1)) (Fin (12 / 1)) true true true ((Fin (0 / 1)) :: (Fin (0 / 1)) :: (Fin (0 / 1)) :: (Fin (0 / 1)) :: (Fin (27 / 4)) :: (Fin (45 / 1)) :: nil)) (7007853163057237 / 1125899906842624).
Proof. apply (A41_rio_fin _ (535 / 256)); [reflexivity | apply (A41_q_mid 535 256 7007853163057237 1125899906842624); [vm_compute; reflexivity | unfold fr, close, ctol, A41_c, A41_e; interval with (i_prec 80)]]. Qed.
Lemma r_A41_1037 : rio_reads A41_c A41_e A41_lo A41_hi floor_volts ctol (Build_rio (Fin (615 / 256)) (Fin (2105 / 512)) (Fin (725 / 256)) (Fin (0 / 1)) (Fin (83 / 8)) true true true ((Fin (1599 / 1024)) :: (Fin (1 / 512)) :: (Fin (673 / 1024)) :: (Fin (127405 / 1024)) :: (Fin (4547 / 512)) :: (Fin (11829 / 1024)) :: nil)) (1527808225188555 / 281474976710656).
Proof. apply (A41_rio_fin _ (615 / 256)); [reflexivity | apply (A41_q_mid 615 256 1527808225188555 281474976710656); [vm_compute; reflexivity | unfold fr, close, ctol, A41_c, A41_e; interval with (i_prec 80)]]. Qed.
Lemma r_A41_1053 : rio_reads A41_c A41_e A41_lo A41_hi floor_volts ctol (Build_rio (Fin (695 / 256)) (Fin (5 / 1)) (Fin (0 / 1)) (Fin (2819 / 512)) (Fin (2637 / 256)) false true true ((Fin (2807 / 1024)) :: (Fin (393 / 1024)) :: (Fin (1175 / 512)) :: (Fin (154463 / 1024)) :: (Fin (3805 / 512)) :: (Fin (71859 / 1024)) :: nil)) (5419433315893937 / 1125899906842624).
Proof. apply (A41_rio_fin _ (695 / 256)); [reflexivity | apply (A41_q_mid 695 256 5419433315893937 1125899906842624); [vm_compute; reflexivity | unfold fr, close, ctol, A41_c, A41_e; interval with (i_prec 80)]]. Qed.
Lemma r_A41_1069 : rio_reads A41_c A41_e A41_lo A41_hi floor_volts ctol (Build_rio (Fin (195 / 64)) (Fin (5 / 1)) (Fin (3715469692580659 / 1125899906842624)) (Fin (6 / 1)) (Fin (12 / 1)) true true true ((Fin (0 / 1)) :: (Fin (0 / 1)) :: (Fin (0 / 1)) :: (Fin (0 / 1)) :: (Fin (27 / 4)) :: (Fin (45 / 1)) :: nil)) (9 / 2).
Proof. apply (A41_rio_fin _ (195 / 64)); [reflexivity | apply (A41_q_lo 195 64 9 2); [vm_compute; reflexivity | unfold fr, ctol, A41_lo, A41_c, A41_e; interval with (i_prec 80)]]. Qed.
Lemma r_A41_1085 : rio_reads A41_c A41_e A41_lo A41_hi floor_volts ctol (Build_rio (Fin (215 / 64)) (Fin (4577 / 1024)) (Fin (3639 / 1024)) NInf (Fin (6071 / 512)) true true true ((Fin (155 / 256)) :: (Fin (241 / 1024)) :: (Fin (633 / 512)) :: (Fin (189003 / 1024)) :: (Fin (1597 / 512)) :: (Fin (78159 / 1024)) :: nil)) (9 / 2).
Proof. apply (A41_rio_fin _ (215 / 64)); [reflexivity | apply (A41_q_lo 215 64 9 2); [vm_compute; reflexivity | unfold fr, ctol, A41_lo, A41_c, A41_e; interval with (i_prec 80)]]. Qed.
Lemma r_A41_1101 : rio_reads A41_c A41_e A41_lo A41_hi floor_volts ctol (Build_rio (Fin (235 / 64)) (Fin (4867 / 1024)) (Fin (3447 / 1024)) (Fin (5217 / 1024)) (Fin (12029 / 1024)) true true true ((Fin (3059 / 1024)) :: (Fin (101 / 64)) :: (Fin (23 / 32)) :: (Fin (196299 / 1024)) :: (Fin (6611 / 1024)) :: (Fin (83115 / 1024)) :: nil)) (9 / 2).
Proof. apply (A41_rio_fin _ (235 / 64)); [reflexivity | apply (A41_q_lo 235 64 9 2); [vm_compute; reflexivity | unfold fr, ctol, A41_lo, A41_c, A41_e; interval with (i_prec 80)]]. Qed.
Lemma r_A41_1117 : rio_reads A41_c A41_e A41_lo A41_hi floor_volts ctol (Build_rio (Fin (255 / 64)) (Fin (5 / 1)) (Fin (3715469692580659 / 1125899906842624)) (Fin (6 / 1)) (Fin (12 / 1)) true true true ((Fin (0 / 1)) :: (Fin (0 / 1)) :: (Fin (0 / 1)) :: (Fin (0 / 1)) :: (Fin (27 / 4)) :: (Fin (45 / 1)) :: nil)) (9 / 2).
Proof. apply (A41_rio_fin _ (255 / 64)); [reflexivity | apply (A41_q_lo 255 64 9 2); [vm_compute; reflexivity | unfold fr, ctol, A41_lo, A41_c, A41_e; interval with (i_prec 80)]]. Qed.
Lemma r_A41_1133 : rio_reads A41_c A41_e A41_lo A41_hi floor_volts ctol (Build_rio (Fin (275 / 64)) (Fin (2107 / 512)) (Fin (3345 / 1024)) (Fin (6741 / 1024)) (Fin (12 / 1)) false true true ((Fin (269 / 1024)) :: (Fin (875 / 512)) :: (Fin (2753 / 1024)) :: (Fin (135471 / 1024)) :: (Fin (8951 / 1024)) :: (Fin (1289 / 256)) :: nil)) (9 / 2).
Proof. apply (A41_rio_fin _ (275 / 64)); [reflexivity | apply (A41_q_lo 275 64 9 2); [vm_compute; reflexivity | unfold fr, ctol, A41_lo, A41_c, A41_e; interval with (i_prec 80)]]. Qed.
Lemma r_A41_1149 : rio_reads A41_c A41_e A41_lo A41_hi floor_volts ctol (Build_rio (Fin (295 / 64)) (Fin (1 / 202402253307310618352495346718917307049556649764142118356901358027430339567995346891960383701437124495187077864316811911389808737385793476867013399940738509921517424276566361364466907742093216341239767678472745068562007483424692698618103355649159556340810056512358769552333414615230502532186327508646006263307707741093494784)) (Fin (1687 / 512)) (Fin ((-12) / 1)) (Fin (12 / 1)) false false true ((Fin (747 / 512)) :: (Fin (1011 / 512)) :: (Fin (2985 / 1024)) :: (Fin (31299 / 512)) :: (Fin (4241 / 1024)) :: (Fin (38241 / 1024)) :: nil)) (9 / 2).
Proof. apply (A41_rio_fin _ (295 / 64)); [reflexivity | apply (A41_q_lo 295 64 9 2); [vm_compute; reflexivity | unfold fr, ctol, A41_lo, A41_c, A41_e; interval with (i_prec 80)]]. Qed.
Lemma r_A41_1165 : rio_reads A41_c A41_e A41_lo A41_hi floor_volts ctol (Build_rio (Fin (315 / 64)) (Fin (5 / 1)) (Fin (3715469692580659 / 1125899906842624)) (Fin (6 / 1)) (Fin (12 / 1)) true true true ((Fin (0 / 1)) :: (Fin (0 / 1)) :: (Fin (0 / 1)) :: (Fin (0 / 1)) :: (Fin (27 / 4)) :: (Fin (45 / 1)) :: nil)) (9 / 2).
Proof. apply (A41_rio_fin _ (315 / 64)); [reflexivity | apply (A41_q_lo 315 64 9 2); [vm_compute; reflexivity | unfold fr, ctol, A41_lo, A41_c, A41_e; interval with (i_prec 80)]]. Qed.
Lemma r_A41_1181 : rio_reads A41_c A41_e A41_lo A41_hi floor_volts ctol (Build_rio (Fin (5023839797997155 / 2251799813685248)) (Fin (100000000000000001097906362944045541740492309677311846336810682903157585404911491537163328978494688899061249669721172515611590283743140088328307009198146046031271664502933027185697489699588559043338384466165001178426897626212945177628091195786707458122783970171784415105291802893207873272974885715430223118336 / 1)) (Fin (1663 / 512)) (Fin (5691 / 1024)) (Fin (1253 / 128)) false true true ((Fin (2415 / 1024)) :: (Fin (721 / 1024)) :: (Fin (1097 / 1024)) :: (Fin (77545 / 1024)) :: (Fin (3887 / 1024)) :: (Fin (55023 / 1024)) :: nil)) (6571923651618397 / 1125899906842624).
Proof. apply (A41_rio_fin _ (5023839797997155 / 2251799813685248)); [reflexivity | apply (A41_q_mid 5023839797997155 2251799813685248 6571923651618397 1125899906842624); [vm_compute; reflexivity | unfold fr, close, ctol, A41_c, A41_e; interval with (i_prec 80)]]. Qed.
Lemma r_A41_1197 : rio_reads A41_c A41_e A41_lo A41_hi floor_volts ctol (Build_rio (Fin (35404724012875 / 140737488355328)) (Fin (1537 / 512)) (Fin ((-12) / 1)) (Fin (1267 / 256)) (Fin ((-12) / 1)) true true true ((Fin (2071 / 1024)) :: (Fin (147 / 128)) :: (Fin (631 / 256)) :: (Fin (153017 / 1024)) :: (Fin (1777 / 512)) :: (Fin (21139 / 512)) :: nil)) (35 / 1).
Proof. apply (A41_rio_fin _ (35404724012875 / 140737488355328)); [reflexivity | apply (A41_q_hi 35404724012875 140737488355328 35 1); [vm_compute; reflexivity | unfold fr, ctol, A41_hi, A41_c, A41_e; interval with (i_prec 80)]]. Qed.
Lemma r_A41_1213 : rio_reads A41_c A41_e A41_lo A41_hi floor_volts ctol (Build_rio (Fin (4181269908659851 / 1125899906842624)) (Fin (5 / 1)) (Fin (3715469692580659 / 1125899906842624)) (Fin (6 / 1)) (Fin (12 / 1)) true true true ((Fin (0 / 1)) :: (Fin (0 / 1)) :: (Fin (0 / 1)) :: (Fin (0 / 1)) :: (Fin (27 / 4)) :: (Fin (45 / 1)) :: nil)) (9 / 2).
Proof. apply (A41_rio_fin _ (4181269908659851 / 1125899906842624)); [reflexivity | apply (A41_q_lo 4181269908659851 1125899906842624 9 2); [vm_compute; reflexivity | unfold fr, ctol, A41_lo, A41_c, A41_e; interval with (i_prec 80)]]. Qed.
Lemma r_A41_1229 : rio_reads A41_c A41_e A41_lo A41_hi floor_volts ctol (Build_rio (Fin (8594311214839571 / 1125899906842624)) (Fin (2625 / 512)) (Fin (1 / 202402253307310618352495346718917307049556649764142118356901358027430339567995346891960383701437124495187077864316811911389808737385793476867013399940738509921517424276566361364466907742093216341239767678472745068562007483424692698618103355649159556340810056512358769552333414615230502532186327508646006263307707741093494784)) (Fin (5902958103587057 / 590295810358705651712)) (Fin (11863 / 1024)) true true false ((Fin (2663 / 1024)) :: (Fin (217 / 1024)) :: (Fin (485 / 256)) :: (Fin (89693 / 1024)) :: (Fin (2007 / 256)) :: (Fin (88619 / 1024)) :: nil)) (9 / 2).
Proof. apply (A41_rio_fin _ (8594311214839571 / 1125899906842624)); [reflexivity | apply (A41_q_lo 8594311214839571 1125899906842624 9 2); [vm_compute; reflexivity | unfold fr, ctol, A41_lo, A41_c, A41_e; interval with (i_prec 80)]]. Qed.
Lemma r_A41_1249 : rio_reads A41_c A41_e A41_lo A41_hi floor_volts ctol (Build_rio (Fin (3124222127120501 / 17592186044416)) (Fin (5 / 1)) (Fin (3715469692580659 / 1125899906842624)) (Fin (6 / 1)) (Fin (12 / 1)) true true true ((Fin (0 / 1)) :: (Fin (0 / 1)) :: (Fin (0 / 1)) :: (Fin (0 / 1)) :: (Fin (27 / 4)) :: (Fin (45 / 1)) :: nil)) (9 / 2).
Proof. apply (A41_rio_fin _ (3124222127120501 / 17592186044416)); [reflexivity | apply (A41_q_lo 3124222127120501 17592186044416 9 2); [vm_compute; reflexivity | unfold fr, ctol, A41_lo, A41_c, A41_e; interval with (i_prec 80)]]. Qed.
Lemma d_A41_1334r : rio_reads A41_c A41_e A41_lo A41_hi floor_volts ctol (Build_rio (Fin (1636741441258383 / 562949953421312)) (Fin (5 / 1)) (Fin (3715469692580659 / 1125899906842624)) (Fin (6 / 1)) (Fin (12 / 1)) true true true ((Fin (0 / 1)) :: (Fin (0 / 1)) :: (Fin (0 / 1)) :: (Fin (0 / 1)) :: (Fin (27 / 4)) :: (Fin ((-40) / 1)) :: nil)) (9 / 2).
Proof. apply (A41_rio_fin _ (1636741441258383 / 562949953421312)); [reflexivity | apply (A41_q_lo 1636741441258383 562949953421312 9 2); [vm_compute; reflexivity | unfold fr, ctol, A41_lo, A41_c, A41_e; interval with (i_prec 80)]]. Qed.
Lemma d_A41_1342r : rio_reads A41_c A41_e A41_lo A41_hi floor_volts ctol (Build_rio (Fin (1636741441258383 / 562949953421312)) NInf NInf NInf NInf false true true ((Fin (0 / 1)) :: (Fin (0 / 1)) :: (Fin (0 / 1)) :: (Fin (0 / 1)) :: (Fin (27 / 4)) :: (Fin (45 / 1)) :: nil)) (9 / 2).
Proof. apply (A41_rio_fin _ (1636741441258383 / 562949953421312)); [reflexivity | apply (A41_q_lo 1636741441258383 562949953421312 9 2); [vm_compute; reflexivity | unfold fr, ctol, A41_lo, A41_c, A41_e; interval with (i_prec 80)]]. Qed.
Lemma d_A41_1350r : rio_reads A41_c A41_e A41_lo A41_hi floor_volts ctol (Build_rio (Fin (6491044311201869 / 18014398509481984)) (Fin (5 / 2)) (Fin (3715469692580659 / 1125899906842624)) (Fin (6 / 1)) (Fin (12 / 1)) true true true ((Fin (0 / 1)) :: (Fin (0 / 1)) :: (Fin (0 / 1)) :: (Fin (0 / 1)) :: (Fin (27 / 4)) :: (Fin (45 / 1)) :: nil)) (35 / 1).
Proof. apply (A41_rio_fin _ (6491044311201869 / 18014398509481984)); [reflexivity | apply (A41_q_hi 6491044311201869 18014398509481984 35 1); [vm_compute; reflexivity | unfold fr, ctol, A41_hi, A41_c, A41_e; interval with (i_prec 80)]]. Qed.
Lemma d_A41_1358r : rio_reads A41_c A41_e A41_lo A41_hi floor_volts ctol (Build_rio (Fin (1636741441258383 / 562949953421312)) (Fin (1 / 202402253307310618352495346718917307049556649764142118356901358027430339567995346891960383701437124495187077864316811911389808737385793476867013399940738509921517424276566361364466907742093216341239767678472745068562007483424692698618103355649159556340810056512358769552333414615230502532186327508646006263307707741093494784)) (Fin (3715469692580659 / 1125899906842624)) (Fin (6 / 1)) (Fin (12 / 1)) true true true ((Fin (0 / 1)) :: (Fin (0 / 1)) :: (Fin (0 / 1)) :: (Fin (0 / 1)) :: (Fin (27 / 4)) :: (Fin (45 / 1)) :: nil)) (9 / 2).
Proof. apply (A41_rio_fin _ (1636741441258383 / 562949953421312)); [reflexivity | apply (A41_q_lo 1636741441258383 562949953421312 9 2); [vm_compute; reflexivity | unfold fr, ctol, A41_lo, A41_c, A41_e; interval with (i_prec 80)]]. Qed.
Lemma d_A41_1366r : rio_reads A41_c A41_e A41_lo A41_hi floor_volts ctol (Build_rio (Fin (6491044311201869 / 18014398509481984)) (Fin (5 / 1)) (Fin (3715469692580659 / 1125899906842624)) (Fin (6 / 1)) (Fin (5 / 1)) true true true ((Fin (0 / 1)) :: (Fin (0 / 1)) :: (Fin (0 / 1)) :: (Fin (0 / 1)) :: (Fin (27 / 4)) :: (Fin (45 / 1)) :: nil)) (35 / 1).
Proof. apply (A41_rio_fin _ (6491044311201869 / 18014398509481984)); [reflexivity | apply (A41_q_hi 6491044311201869 18014398509481984 35 1); [vm_compute; reflexivity | unfold fr, ctol, A41_hi, A41_c, A41_e; interval with (i_prec 80)]]. Qed.
Lemma d_A41_1374r : rio_reads A41_c A41_e A41_lo A41_hi floor_volts ctol (Build_rio (Fin (1636741441258383 / 562949953421312)) (Fin (5 / 1)) (Fin (5 / 1)) (Fin (6 / 1)) (Fin (12 / 1)) true true true ((Fin (0 / 1)) :: (Fin (0 / 1)) :: (Fin (0 / 1)) :: (Fin (0 / 1)) :: (Fin (27 / 4)) :: (Fin (45 / 1)) :: nil)) (9 / 2).
Proof. apply (A41_rio_fin _ (1636741441258383 / 562949953421312)); [reflexivity | apply (A41_q_lo 1636741441258383 562949953421312 9 2); [vm_compute; reflexivity | unfold fr, ctol, A41_lo, A41_c, A41_e; interval with (i_prec 80)]]. Qed.
Lemma d_A41_1382r : rio_reads A41_c A41_e A41_lo A41_hi floor_volts ctol (Build_rio (Fin (6546965758369275 / 2251799813685248)) (Fin (5 / 1)) (Fin (3715469692580659 / 1125899906842624)) (Fin ((-1) / 1)) (Fin (12 / 1)) true true true ((Fin (0 / 1)) :: (Fin (0 / 1)) :: (Fin (0 / 1)) :: (Fin (0 / 1)) :: (Fin (27 / 4)) :: (Fin (45 / 1)) :: nil)) (2533274792929179 / 562949953421312).
Proof. apply (A41_rio_fin _ (6546965758369275 / 2251799813685248)); [reflexivity | apply (A41_q_mid 6546965758369275 2251799813685248 2533274792929179 562949953421312); [vm_compute; reflexivity | unfold fr, close, ctol, A41_c, A41_e; interval with (i_prec 80)]]. Qed.
Lemma d_A41_1391u : close ctol (929397049128033 / 1125899906842624) (volts_A41 (4363522865407385 / 281474976710656)).
Proof. apply (A41_q_volts_mid 4363522865407385 281474976710656 929397049128033 1125899906842624); [vm_compute; reflexivity | unfold fr, close, ctol, A41_lo, A41_hi, A41_c, A41_e; interval with (i_prec 80)]. Qed.
Lemma d_A41_1404u : close ctol (2413911274103497 / 4503599627370496) (volts_A41 (3334621410261577 / 140737488355328)).
Proof. apply (A41_q_volts_mid 3334621410261577 140737488355328 2413911274103497 4503599627370496); [vm_compute; reflexivity | unfold fr, close, ctol, A41_lo, A41_hi, A41_c, A41_e; interval with (i_prec 80)]. Qed.
Lemma d_A41_1416r : rio_reads A41_c A41_e A41_lo A41_hi floor_volts ctol (Build_rio (Fin (7724387808318131 / 4503599627370496)) (Fin (2493 / 512)) (Fin (1459 / 512)) (Fin (5543 / 1024)) (Fin (10841 / 1024)) true true true ((Fin (933 / 512)) :: (Fin (397 / 512)) :: (Fin (2049 / 1024)) :: (Fin (61185 / 1024)) :: (Fin (3045 / 512)) :: (Fin (21095 / 512)) :: nil)) (531819533436457 / 70368744177664).
Proof. apply (A41_rio_fin _ (7724387808318131 / 4503599627370496)); [reflexivity | apply (A41_q_mid 7724387808318131 4503599627370496 531819533436457 70368744177664); [vm_compute; reflexivity | unfold fr, close, ctol, A41_c, A41_e; interval with (i_prec 80)]]. Qed.
Lemma d_A41_1429u : close ctol (3529175949186979 / 9007199254740992) (volts_A41 (1134147548060299 / 35184372088832)).
Proof. apply (A41_q_volts_mid 1134147548060299 35184372088832 3529175949186979 9007199254740992); [vm_compute; reflexivity | unfold fr, close, ctol, A41_lo, A41_hi, A41_c, A41_e; interval with (i_prec 80)]. Qed.
Lemma d_A41_1442u : close ctol (6411549848811897 / 9007199254740992) (volts_A41 (5047000315220149 / 281474976710656)).
Proof. apply (A41_q_volts_mid 5047000315220149 281474976710656 6411549848811897 9007199254740992); [vm_compute; reflexivity | unfold fr, close, ctol, A41_lo, A41_hi, A41_c, A41_e; interval with (i_prec 80)]. Qed.
Lemma d_A41_1455u : close ctol (1636741441258383 / 562949953421312) (volts_A41 (86372862150949 / 2251799813685248)).
Proof. apply (A41_q_volts_lo 86372862150949 2251799813685248 1636741441258383 562949953421312); [vm_compute; reflexivity | unfold fr, close, ctol, A41_lo, A41_hi, A41_c, A41_e; interval with (i_prec 80)]. Qed.
Lemma d_A41_1468u : close ctol (1636741441258383 / 562949953421312) (volts_A41 ((-4748792423372811) / 2251799813685248)).
Proof. apply (A41_q_volts_lo (-4748792423372811) 2251799813685248 1636741441258383 562949953421312); [vm_compute; reflexivity | unfold fr, close, ctol, A41_lo, A41_hi, A41_c, A41_e; interval with (i_prec 80)]. Qed.
Lemma d_A41_1480r : rio_reads A41_c A41_e A41_lo A41_hi floor_volts ctol (Build_rio (Fin (3082603500243395 / 4503599627370496)) (Fin (2055 / 512)) (Fin (3665 / 1024)) (Fin (5902958103587057 / 590295810358705651712)) (Fin (12 / 1)) false false true ((Fin (613 / 256)) :: (Fin (1533 / 1024)) :: (Fin (961 / 1024)) :: (Fin (2929 / 16)) :: (Fin (4587 / 1024)) :: (Fin (28175 / 1024)) :: nil)) (2622522519613479 / 140737488355328).
Proof. apply (A41_rio_fin _ (3082603500243395 / 4503599627370496)); [reflexivity | apply (A41_q_mid 3082603500243395 4503599627370496 2622522519613479 140737488355328); [vm_compute; reflexivity | unfold fr, close, ctol, A41_c, A41_e; interval with (i_prec 80)]]. Qed.
Lemma d_A41_1493u : close ctol (4667470131851187 / 9007199254740992) (volts_A41 (3447133459590943 / 140737488355328)).
Proof. apply (A41_q_volts_mid 3447133459590943 140737488355328 4667470131851187 9007199254740992); [vm_compute; reflexivity | unfold fr, close, ctol, A41_lo, A41_hi, A41_c, A41_e; interval with (i_prec 80)]. Qed.
Lemma d_A41_1506u : close ctol (1636741441258383 / 562949953421312) (volts_A41 ((-2010683417414379) / 1125899906842624)).
Proof. apply (A41_q_volts_lo (-2010683417414379) 1125899906842624 1636741441258383 562949953421312); [vm_compute; reflexivity | unfold fr, close, ctol, A41_lo, A41_hi, A41_c, A41_e; interval with (i_prec 80)]. Qed.
Lemma d_A41_1519u : close ctol (5857417845205229 / 4503599627370496) (volts_A41 (1395845547769351 / 140737488355328)).
Proof. apply (A41_q_volts_mid 1395845547769351 140737488355328 5857417845205229 4503599627370496); [vm_compute; reflexivity | unfold fr, close, ctol, A41_lo, A41_hi, A41_c, A41_e; interval with (i_prec 80)]. Qed.
Lemma d_A41_1532u : close ctol (791339374514847 / 562949953421312) (volts_A41 (2586513469368067 / 281474976710656)).
Proof. apply (A41_q_volts_mid 2586513469368067 281474976710656 791339374514847 562949953421312); [vm_compute; reflexivity | unfold fr, close, ctol, A41_lo, A41_hi, A41_c, A41_e; interval with (i_prec 80)]. Qed.
Lemma d_A41_1544r : rio_reads A41_c A41_e A41_lo A41_hi floor_volts ctol (Build_rio (Fin (1636741441258383 / 562949953421312)) (Fin (5 / 1)) (Fin (3715469692580659 / 1125899906842624)) (Fin (6 / 1)) (Fin (12 / 1)) true true true ((Fin (0 / 1)) :: (Fin (0 / 1)) :: (Fin (0 / 1)) :: (Fin (0 / 1)) :: (Fin (27 / 4)) :: (Fin (45 / 1)) :: nil)) (9 / 2).
Proof. apply (A41_rio_fin _ (1636741441258383 / 562949953421312)); [reflexivity | apply (A41_q_lo 1636741441258383 562949953421312 9 2); [vm_compute; reflexivity | unfold fr, ctol, A41_lo, A41_c, A41_e; interval with (i_prec 80)]]. Qed.
Lemma d_A41_1557u : close ctol (6491044311201869 / 18014398509481984) (volts_A41 (900780918159063 / 17592186044416)).
Proof. apply (A41_q_volts_hi 900780918159063 17592186044416 6491044311201869 18014398509481984); [vm_compute; reflexivity | unfold fr, close, ctol, A41_lo, A41_hi, A41_c, A41_e; interval with (i_prec 80)]. Qed.
Lemma d_A41_1570u : close ctol (4635864625893449 / 9007199254740992) (volts_A41 (1735109829888681 / 70368744177664)).
Proof. apply (A41_q_volts_mid 1735109829888681 70368744177664 4635864625893449 9007199254740992); [vm_compute; reflexivity | unfold fr, close, ctol, A41_lo, A41_hi, A41_c, A41_e; interval with (i_prec 80)]. Qed.
Lemma d_A41_1583u : close ctol (1636741441258383 / 562949953421312) (volts_A41 (943851527737471 / 1125899906842624)).
Proof. apply (A41_q_volts_lo 943851527737471 1125899906842624 1636741441258383 562949953421312); [vm_compute; reflexivity | unfold fr, close, ctol, A41_lo, A41_hi, A41_c, A41_e; interval with (i_prec 80)]. Qed.
Lemma d_A41_1596u : close ctol (3117844685805321 / 2251799813685248) (volts_A41 (1312615221932385 / 140737488355328)).
Proof. apply (A41_q_volts_mid 1312615221932385 140737488355328 3117844685805321 2251799813685248); [vm_compute; reflexivity | unfold fr, close, ctol, A41_lo, A41_hi, A41_c, A41_e; interval with (i_prec 80)]. Qed.
Lemma d_A41_1608r : rio_reads A41_c A41_e A41_lo A41_hi floor_volts ctol (Build_rio (Fin (7295351455992335 / 18014398509481984)) (Fin (6491 / 1024)) (Fin (2741 / 1024)) (Fin (2513 / 1024)) (Fin (6597 / 512)) false true false ((Fin (711 / 256)) :: (Fin (11 / 32)) :: (Fin (2059 / 1024)) :: (Fin (107855 / 1024)) :: (Fin (373 / 64)) :: (Fin (71473 / 1024)) :: nil)) (8783529576463707 / 281474976710656).
Proof. apply (A41_rio_fin _ (7295351455992335 / 18014398509481984)); [reflexivity | apply (A41_q_mid 7295351455992335 18014398509481984 8783529576463707 281474976710656); [vm_compute; reflexivity | unfold fr, close, ctol, A41_c, A41_e; interval with (i_prec 80)]]. Qed.
Lemma d_A41_1621u : close ctol (4474317082341787 / 4503599627370496) (volts_A41 (7274748214811001 / 562949953421312)).
Proof. apply (A41_q_volts_mid 7274748214811001 562949953421312 4474317082341787 4503599627370496); [vm_compute; reflexivity | unfold fr, close, ctol, A41_lo, A41_hi, A41_c, A41_e; interval with (i_prec 80)]. Qed.
Lemma d_A41_1634u : close ctol (1387441533442755 / 1125899906842624) (volts_A41 (2943652162050507 / 281474976710656)).
Proof. apply (A41_q_volts_mid 2943652162050507 281474976710656 1387441533442755 1125899906842624); [vm_compute; reflexivity | unfold fr, close, ctol, A41_lo, A41_hi, A41_c, A41_e; interval with (i_prec 80)]. Qed.
Lemma d_A41_1647u : close ctol (5428998129030637 / 4503599627370496) (volts_A41 (1503984349596377 / 140737488355328)).
Proof. apply (A41_q_volts_mid 1503984349596377 140737488355328 5428998129030637 4503599627370496); [vm_compute; reflexivity | unfold fr, close, ctol, A41_lo, A41_hi, A41_c, A41_e; interval with (i_prec 80)]. Qed.
Lemma d_A41_1660u : close ctol (1636741441258383 / 562949953421312) (volts_A41 ((-3) / 1)).
Proof. apply (A41_q_volts_lo (-3) 1 1636741441258383 562949953421312); [vm_compute; reflexivity | unfold fr, close, ctol, A41_lo, A41_hi, A41_c, A41_e; interval with (i_prec 80)]. Qed.
Lemma d_A41_1672r : rio_reads A41_c A41_e A41_lo A41_hi floor_volts ctol (Build_rio (Fin (5474459508957059 / 4503599627370496)) (Fin (647 / 128)) (Fin (0 / 1)) (Fin (2679 / 512)) (Fin (3213 / 256)) true true true ((Fin (67 / 64)) :: (Fin (863 / 512)) :: (Fin (1483 / 512)) :: (Fin (152939 / 1024)) :: (Fin (1847 / 256)) :: (Fin (33977 / 1024)) :: nil)) (2983427552102713 / 281474976710656).
Proof. apply (A41_rio_fin _ (5474459508957059 / 4503599627370496)); [reflexivity | apply (A41_q_mid 5474459508957059 4503599627370496 2983427552102713 281474976710656); [vm_compute; reflexivity | unfold fr, close, ctol, A41_c, A41_e; interval with (i_prec 80)]]. Qed.
Lemma d_A41_1685u : close ctol (7105436791167213 / 9007199254740992) (volts_A41 (2281187733035171 / 140737488355328)).
Proof. apply (A41_q_volts_mid 2281187733035171 140737488355328 7105436791167213 9007199254740992); [vm_compute; reflexivity | unfold fr, close, ctol, A41_lo, A41_hi, A41_c, A41_e; interval with (i_prec 80)]. Qed.
Lemma d_A41_1698u : close ctol (4976127137016057 / 9007199254740992) (volts_A41 (23 / 1)).
Proof. apply (A41_q_volts_mid 23 1 4976127137016057 9007199254740992); [vm_compute; reflexivity | unfold fr, close, ctol, A41_lo, A41_hi, A41_c, A41_e; interval with (i_prec 80)]. Qed.
Lemma d_A41_1711u : close ctol (5366490941491811 / 9007199254740992) (volts_A41 (375686832442591 / 17592186044416)).
Proof. apply (A41_q_volts_mid 375686832442591 17592186044416 5366490941491811 9007199254740992); [vm_compute; reflexivity | unfold fr, close, ctol, A41_lo, A41_hi, A41_c, A41_e; interval with (i_prec 80)]. Qed.
Lemma d_A41_1724u : close ctol (6491044311201869 / 18014398509481984) (volts_A41 (3855039558058159 / 70368744177664)).
Proof. apply (A41_q_volts_hi 3855039558058159 70368744177664 6491044311201869 18014398509481984); [vm_compute; reflexivity | unfold fr, close, ctol, A41_lo, A41_hi, A41_c, A41_e; interval with (i_prec 80)]. Qed.
Lemma d_A41_1736r : rio_reads A41_c A41_e A41_lo A41_hi floor_volts ctol (Build_rio (Fin (1226933205007575 / 2251799813685248)) (Fin (5 / 1)) (Fin (3715469692580659 / 1125899906842624)) (Fin (6 / 1)) (Fin (12 / 1)) true true true ((Fin (0 / 1)) :: (Fin (0 / 1)) :: (Fin (0 / 1)) :: (Fin (0 / 1)) :: (Fin (27 / 4)) :: (Fin (45 / 1)) :: nil)) (1640636642941575 / 70368744177664).
Proof. apply (A41_rio_fin _ (1226933205007575 / 2251799813685248)); [reflexivity | apply (A41_q_mid 1226933205007575 2251799813685248 1640636642941575 70368744177664); [vm_compute; reflexivity | unfold fr, close, ctol, A41_c, A41_e; interval with (i_prec 80)]]. Qed.
Lemma d_A41_1749u : close ctol (5192851358123245 / 4503599627370496) (volts_A41 (3142296707788645 / 281474976710656)).
Proof. apply (A41_q_volts_mid 3142296707788645 281474976710656 5192851358123245 4503599627370496); [vm_compute; reflexivity | unfold fr, close, ctol, A41_lo, A41_hi, A41_c, A41_e; interval with (i_prec 80)]. Qed.
Lemma d_A41_1762u : close ctol (6491044311201869 / 18014398509481984) (volts_A41 (2338976113968887 / 35184372088832)).
Proof. apply (A41_q_volts_hi 2338976113968887 35184372088832 6491044311201869 18014398509481984); [vm_compute; reflexivity | unfold fr, close, ctol, A41_lo, A41_hi, A41_c, A41_e; interval with (i_prec 80)]. Qed.
Lemma d_A41_1775u : close ctol (6186589505192117 / 9007199254740992) (volts_A41 (5227235278867067 / 281474976710656)).
Proof. apply (A41_q_volts_mid 5227235278867067 281474976710656 6186589505192117 9007199254740992); [vm_compute; reflexivity | unfold fr, close, ctol, A41_lo, A41_hi, A41_c, A41_e; interval with (i_prec 80)]. Qed.
Lemma d_A41_1788u : close ctol (222566363811629 / 140737488355328) (volts_A41 (4607744105817243 / 562949953421312)).
Proof. apply (A41_q_volts_mid 4607744105817243 562949953421312 222566363811629 140737488355328); [vm_compute; reflexivity | unfold fr, close, ctol, A41_lo, A41_hi, A41_c, A41_e; interval with (i_prec 80)]. Qed.
Lemma d_A41_1800r : rio_reads A41_c A41_e A41_lo A41_hi floor_volts ctol (Build_rio (Fin (6444443737766709 / 9007199254740992)) (Fin (5 / 1)) (Fin (2789 / 1024)) (Fin (661 / 64)) (Fin (5593 / 512)) true true false ((Fin (725 / 1024)) :: (Fin (393 / 512)) :: (Fin (1705 / 1024)) :: (Fin (22749 / 128)) :: (Fin (7847 / 1024)) :: (Fin (8757 / 512)) :: nil)) (5021691546807357 / 281474976710656).
Proof. apply (A41_rio_fin _ (6444443737766709 / 9007199254740992)); [reflexivity | apply (A41_q_mid 6444443737766709 9007199254740992 5021691546807357 281474976710656); [vm_compute; reflexivity | unfold fr, close, ctol, A41_c, A41_e; interval with (i_prec 80)]]. Qed.
Lemma d_A41_1813u : close ctol (1658579096842857 / 2251799813685248) (volts_A41 (4880465415981109 / 281474976710656)).
Proof. apply (A41_q_volts_mid 4880465415981109 281474976710656 1658579096842857 2251799813685248); [vm_compute; reflexivity | unfold fr, close, ctol, A41_lo, A41_hi, A41_c, A41_e; interval with (i_prec 80)]. Qed.
Lemma d_A41_1826u : close ctol (8227881377424539 / 4503599627370496) (volts_A41 (7997292431029995 / 1125899906842624)).
Proof. apply (A41_q_volts_mid 7997292431029995 1125899906842624 8227881377424539 4503599627370496); [vm_compute; reflexivity | unfold fr, close, ctol, A41_lo, A41_hi, A41_c, A41_e; interval with (i_prec 80)]. Qed.
Lemma d_A41_1839u : close ctol (6491044311201869 / 18014398509481984) (volts_A41 (63 / 1)).
Proof. apply (A41_q_volts_hi 63 1 6491044311201869 18014398509481984); [vm_compute; reflexivity | unfold fr, close, ctol, A41_lo, A41_hi, A41_c, A41_e; interval with (i_prec 80)]. Qed.
Lemma d_A41_1852u : close ctol (1837277353318289 / 4503599627370496) (volts_A41 (4360202862357469 / 140737488355328)).
Proof. apply (A41_q_volts_mid 4360202862357469 140737488355328 1837277353318289 4503599627370496); [vm_compute; reflexivity | unfold fr, close, ctol, A41_lo, A41_hi, A41_c, A41_e; interval with (i_prec 80)]. Qed.
Lemma d_A41_1864r : rio_reads A41_c A41_e A41_lo A41_hi floor_volts ctol (Build_rio (Fin (1257958183764395 / 2251799813685248)) (Fin (4857 / 1024)) (Fin (3391 / 1024)) (Fin (5459 / 1024)) (Fin (12931 / 1024)) true false true ((Fin (799 / 512)) :: (Fin (569 / 1024)) :: (Fin (1633 / 1024)) :: (Fin (4135 / 512)) :: (Fin (2787 / 512)) :: (Fin (21045 / 256)) :: nil)) (6403508506053375 / 281474976710656).
Proof. apply (A41_rio_fin _ (1257958183764395 / 2251799813685248)); [reflexivity | apply (A41_q_mid 1257958183764395 2251799813685248 6403508506053375 281474976710656); [vm_compute; reflexivity | unfold fr, close, ctol, A41_c, A41_e; interval with (i_prec 80)]]. Qed.
Lemma d_A41_1877u : close ctol (1064747519398843 / 2251799813685248) (volts_A41 (7543327688131869 / 281474976710656)).
Proof. apply (A41_q_volts_mid 7543327688131869 281474976710656 1064747519398843 2251799813685248); [vm_compute; reflexivity | unfold fr, close, ctol, A41_lo, A41_hi, A41_c, A41_e; interval with (i_prec 80)]. Qed.
Lemma d_A41_1890u : close ctol (530015387774565 / 1125899906842624) (volts_A41 (7576300665567611 / 281474976710656)).
Proof. apply (A41_q_volts_mid 7576300665567611 281474976710656 530015387774565 1125899906842624); [vm_compute; reflexivity | unfold fr, close, ctol, A41_lo, A41_hi, A41_c, A41_e; interval with (i_prec 80)]. Qed.
Lemma d_A41_1903u : close ctol (233331567531573 / 562949953421312) (volts_A41 (8585570718110081 / 281474976710656)).
Proof. apply (A41_q_volts_mid 8585570718110081 281474976710656 233331567531573 562949953421312); [vm_compute; reflexivity | unfold fr, close, ctol, A41_lo, A41_hi, A41_c, A41_e; interval with (i_prec 80)]. Qed.
Lemma d_A41_1916u : close ctol (6548584511019023 / 18014398509481984) (volts_A41 (2441644550766745 / 70368744177664)).
Proof. apply (A41_q_volts_mid 2441644550766745 70368744177664 6548584511019023 18014398509481984); [vm_compute; reflexivity | unfold fr, close, ctol, A41_lo, A41_hi, A41_c, A41_e; interval with (i_prec 80)]. Qed.
Lemma d_A41_1928r : rio_reads A41_c A41_e A41_lo A41_hi floor_volts ctol (Build_rio (Fin (6491044311201869 / 18014398509481984)) (Fin (5 / 1)) (Fin (3715469692580659 / 1125899906842624)) (Fin (6 / 1)) (Fin (12 / 1)) true true true ((Fin (0 / 1)) :: (Fin (0 / 1)) :: (Fin (0 / 1)) :: (Fin (0 / 1)) :: (Fin (27 / 4)) :: (Fin (45 / 1)) :: nil)) (35 / 1).
Proof. apply (A41_rio_fin _ (6491044311201869 / 18014398509481984)); [reflexivity | apply (A41_q_hi 6491044311201869 18014398509481984 35 1); [vm_compute; reflexivity | unfold fr, ctol, A41_hi, A41_c, A41_e; interval with (i_prec 80)]]. Qed.
Lemma d_A41_1941u : close ctol (2814488423144325 / 4503599627370496) (volts_A41 (1433877040400965 / 70368744177664)).
Proof. apply (A41_q_volts_mid 1433877040400965 70368744177664 2814488423144325 4503599627370496); [vm_compute; reflexivity | unfold fr, close, ctol, A41_lo, A41_hi, A41_c, A41_e; interval with (i_prec 80)]. Qed.
Lemma d_A41_1954u : close ctol (5682871743881673 / 9007199254740992) (volts_A41 (5682066935593221 / 281474976710656)).
Proof. apply (A41_q_volts_mid 5682066935593221 281474976710656 5682871743881673 9007199254740992); [vm_compute; reflexivity | unfold fr, close, ctol, A41_lo, A41_hi, A41_c, A41_e; interval with (i_prec 80)]. Qed.
Lemma d_A41_1967u : close ctol (7969115704222309 / 18014398509481984) (volts_A41 (8053420196199343 / 281474976710656)).
Proof. apply (A41_q_volts_mid 8053420196199343 281474976710656 7969115704222309 18014398509481984); [vm_compute; reflexivity | unfold fr, close, ctol, A41_lo, A41_hi, A41_c, A41_e; interval with (i_prec 80)]. Qed.
Lemma d_A41_1980u : close ctol (1382852097436669 / 2251799813685248) (volts_A41 (2917440414645847 / 140737488355328)).
Proof. apply (A41_q_volts_mid 2917440414645847 140737488355328 1382852097436669 2251799813685248); [vm_compute; reflexivity | unfold fr, close, ctol, A41_lo, A41_hi, A41_c, A41_e; interval with (i_prec 80)]. Qed.
Lemma d_A41_1992r : rio_reads A41_c A41_e A41_lo A41_hi floor_volts ctol (Build_rio (Fin (6921129103454585 / 18014398509481984)) (Fin (6187 / 512)) (Fin (7461 / 512)) (Fin (0 / 1)) (Fin (9841 / 1024)) true false true ((Fin (2193 / 1024)) :: (Fin (69 / 512)) :: (Fin (1081 / 512)) :: (Fin (199775 / 1024)) :: (Fin (8281 / 1024)) :: (Fin (8095 / 128)) :: nil)) (4624937218999733 / 140737488355328).
Proof. apply (A41_rio_fin _ (6921129103454585 / 18014398509481984)); [reflexivity | apply (A41_q_mid 6921129103454585 18014398509481984 4624937218999733 140737488355328); [vm_compute; reflexivity | unfold fr, close, ctol, A41_c, A41_e; interval with (i_prec 80)]]. Qed.
Lemma r_A02_18 : rio_reads A02_c A02_e A02_lo A02_hi floor_volts ctol (Build_rio (Fin ((-179769313486231570814527423731704356798070567525844996598917476803157260780028538760589558632766878171540458953514382464234321326889464182768467546703537516986049910576551282076245490090389328944075868508455133942304583236903222948165808559332123348274797826204144723168738177180919299881250404026184124858368) / 1)) (Fin (5 / 1)) (Fin (3715469692580659 / 1125899906842624)) (Fin (6 / 1)) (Fin (7093169413108531 / 1125899906842624)) true true true ((Fin (0 / 1)) :: (Fin (0 / 1)) :: (Fin (0 / 1)) :: (Fin (0 / 1)) :: (Fin (27 / 4)) :: (Fin (45 / 1)) :: nil)) (435215207548285 / 8796093022208).
Proof. apply (A02_rio_fin _ ((-179769313486231570814527423731704356798070567525844996598917476803157260780028538760589558632766878171540458953514382464234321326889464182768467546703537516986049910576551282076245490090389328944075868508455133942304583236903222948165808559332123348274797826204144723168738177180919299881250404026184124858368) / 1)); [reflexivity | apply (A02_q_floor (-179769313486231570814527423731704356798070567525844996598917476803157260780028538760589558632766878171540458953514382464234321326889464182768467546703537516986049910576551282076245490090389328944075868508455133942304583236903222948165808559332123348274797826204144723168738177180919299881250404026184124858368) 1 435215207548285 8796093022208); vm_compute; reflexivity]. Qed.
Lemma r_A02_398 : rio_reads A02_c A02_e A02_lo A02_hi floor_volts ctol (Build_rio (Fin (3877613779673301 / 590295810358705651712)) (Fin (2555 / 512)) (Fin (3487 / 1024)) (Fin (3281 / 512)) PInf true true true ((Fin (511 / 512)) :: (Fin (1275 / 1024)) :: (Fin (1341 / 1024)) :: (Fin (61949 / 512)) :: (Fin (5591 / 1024)) :: (Fin (757 / 1024)) :: nil)) (145 / 1).
Proof. apply (A02_rio_fin _ (3877613779673301 / 590295810358705651712)); [reflexivity | apply (A02_q_floor 3877613779673301 590295810358705651712 145 1); vm_compute; reflexivity]. Qed.
Lemma d_A02_5g : get_distance (set_distance A02_c A02_e A02_lo A02_hi sim_init (50 / 1)) = (50 / 1).
Proof. cbn [get_distance set_distance sim_distance]. first [reflexivity | lra]. Qed.
Lemma d_A02_12c : close ctol (145 / 1) (clamp A02_lo A02_hi (145 / 1)).
Proof. apply (A02_q_clamp_hi 145 1 145 1); vm_compute; reflexivity. Qed.
Lemma d_A02_18g : get_distance (set_distance A02_c A02_e A02_lo A02_hi sim_init (1000000000000000052504760255204420248704468581108159154915854115511802457988908195786371375080447864043704443832883878176942523235360430575644792184786706982848387200926575803737830233794788090059368953234970799945081119038967640880074652742780142494579258788820056842838115669472196386865459400540160 / 1)) = (1000000000000000052504760255204420248704468581108159154915854115511802457988908195786371375080447864043704443832883878176942523235360430575644792184786706982848387200926575803737830233794788090059368953234970799945081119038967640880074652742780142494579258788820056842838115669472196386865459400540160 / 1).
Proof. cbn [get_distance set_distance sim_distance]. first [reflexivity | lra]. Qed.
Lemma d_A02_25c : close ctol (45 / 2) (clamp A02_lo A02_hi (1 / 202402253307310618352495346718917307049556649764142118356901358027430339567995346891960383701437124495187077864316811911389808737385793476867013399940738509921517424276566361364466907742093216341239767678472745068562007483424692698618103355649159556340810056512358769552333414615230502532186327508646006263307707741093494784)).
Proof. apply (A02_q_clamp_lo 1 202402253307310618352495346718917307049556649764142118356901358027430339567995346891960383701437124495187077864316811911389808737385793476867013399940738509921517424276566361364466907742093216341239767678472745068562007483424692698618103355649159556340810056512358769552333414615230502532186327508646006263307707741093494784 45 2); vm_compute; reflexivity. Qed.
Lemma d_A02_33c : close ctol (7036874417766401 / 140737488355328) (clamp A02_lo A02_hi (50 / 1)).
Proof. apply (A02_q_clamp_mid 50 1 7036874417766401 140737488355328); vm_compute; reflexivity. Qed.
Lemma d_A02_41c : close ctol (145 / 1) (clamp_x A02_lo A02_hi PInf).
Proof. apply (corr_clamp_pinf _ _ _ _ _ A02_admissible _ ctol_ok); apply close_rat; unfold ctol, A02_lo, A02_hi; lra. Qed.
Lemma d_A02_50c : close ctol (1583296745580737 / 70368744177664) (clamp A02_lo A02_hi (1583296745580737 / 70368744177664)).
Proof. apply (A02_q_clamp_mid 1583296745580737 70368744177664 1583296745580737 70368744177664); vm_compute; reflexivity. Qed.
Lemma d_A02_58c : close ctol (145 / 1) (clamp A02_lo A02_hi (3439115733843889 / 17592186044416)).
Proof. apply (A02_q_clamp_hi 3439115733843889 17592186044416 145 1); vm_compute; reflexivity. Qed.
Lemma d_A02_66c : close ctol (766273723524341 / 8796093022208) (clamp A02_lo A02_hi (766273723524341 / 8796093022208)).
Proof. apply (A02_q_clamp_mid 766273723524341 8796093022208 766273723524341 8796093022208); vm_compute; reflexivity. Qed.
Lemma d_A02_74c : close ctol (4688400890467489 / 35184372088832) (clamp A02_lo A02_hi (4688400890467489 / 35184372088832)).
Proof. apply (A02_q_clamp_mid 4688400890467489 35184372088832 4688400890467489 35184372088832); vm_compute; reflexivity. Qed.
Lemma d_A02_82c : close ctol (145 / 1) (clamp A02_lo A02_hi (4169234637805477 / 17592186044416)).
Proof. apply (A02_q_clamp_hi 4169234637805477 17592186044416 145 1); vm_compute; reflexivity. Qed.
Lemma d_A02_90c : close ctol (7097297711230941 / 70368744177664) (clamp A02_lo A02_hi (7097297711230941 / 70368744177664)).
Proof. apply (A02_q_clamp_mid 7097297711230941 70368744177664 7097297711230941 70368744177664); vm_compute; reflexivity. Qed.
Lemma d_A02_98c : close ctol (78637385982289 / 549755813888) (clamp A02_lo A02_hi (78637385982289 / 549755813888)).
Proof. apply (A02_q_clamp_mid 78637385982289 549755813888 78637385982289 549755813888); vm_compute; reflexivity. Qed.
Lemma d_A02_106c : close ctol (2780066739491461 / 35184372088832) (clamp A02_lo A02_hi (2780066739491461 / 35184372088832)).
Proof. apply (A02_q_clamp_mid 2780066739491461 35184372088832 2780066739491461 35184372088832); vm_compute; reflexivity. Qed.
Lemma d_A02_114c : close ctol (1147486753329747 / 8796093022208) (clamp A02_lo A02_hi (1147486753329747 / 8796093022208)).
Proof. apply (A02_q_clamp_mid 1147486753329747 8796093022208 1147486753329747 8796093022208); vm_compute; reflexivity. Qed.
Lemma d_A02_122c : close ctol (1717154548608173 / 35184372088832) (clamp A02_lo A02_hi (1717154548608173 / 35184372088832)).
Proof. apply (A02_q_clamp_mid 1717154548608173 35184372088832 1717154548608173 35184372088832); vm_compute; reflexivity. Qed.
Lemma d_A02_130c : close ctol (7383368706127635 / 70368744177664) (clamp A02_lo A02_hi (7383368706127635 / 70368744177664)).
Proof. apply (A02_q_clamp_mid 7383368706127635 70368744177664 7383368706127635 70368744177664); vm_compute; reflexivity. Qed.
Lemma d_A02_138c : close ctol (2646589640640367 / 70368744177664) (clamp A02_lo A02_hi (2646589640640367 / 70368744177664)).
Proof. apply (A02_q_clamp_mid 2646589640640367 70368744177664 2646589640640367 70368744177664); vm_compute; reflexivity. Qed.
Lemma d_A02_146c : close ctol (145 / 1) (clamp A02_lo A02_hi (257 / 1)).
Proof. apply (A02_q_clamp_hi 257 1 145 1); vm_compute; reflexivity. Qed.
Lemma d_A02_154c : close ctol (145 / 1) (clamp A02_lo A02_hi (153 / 1)).
Proof. apply (A02_q_clamp_hi 153 1 145 1); vm_compute; reflexivity. Qed.
Lemma d_A02_162c : close ctol (45 / 2) (clamp A02_lo A02_hi (4775319914472953 / 281474976710656)).
Proof. apply (A02_q_clamp_lo 4775319914472953 281474976710656 45 2); vm_compute; reflexivity. Qed.
Lemma d_A02_170c : close ctol (8401228069763423 / 281474976710656) (clamp A02_lo A02_hi (8401228069763423 / 281474976710656)).
Proof. apply (A02_q_clamp_mid 8401228069763423 281474976710656 8401228069763423 281474976710656); vm_compute; reflexivity. Qed.
Lemma d_A02_178c : close ctol (45 / 2) (clamp A02_lo A02_hi ((-322885894205073) / 281474976710656)).
Proof. apply (A02_q_clamp_lo (-322885894205073) 281474976710656 45 2); vm_compute; reflexivity. Qed.
Lemma d_A02_186c : close ctol (162481630517293 / 2199023255552) (clamp A02_lo A02_hi (162481630517293 / 2199023255552)).
Proof. apply (A02_q_clamp_mid 162481630517293 2199023255552 162481630517293 2199023255552); vm_compute; reflexivity. Qed.
Lemma d_A02_194c : close ctol (7001289423051021 / 70368744177664) (clamp A02_lo A02_hi (7001289423051021 / 70368744177664)).
Proof. apply (A02_q_clamp_mid 7001289423051021 70368744177664 7001289423051021 70368744177664); vm_compute; reflexivity. Qed.
Lemma d_A02_202c : close ctol (8719466056070089 / 70368744177664) (clamp A02_lo A02_hi (8719466056070089 / 70368744177664)).
Proof. apply (A02_q_clamp_mid 8719466056070089 70368744177664 8719466056070089 70368744177664); vm_compute; reflexivity. Qed.
Lemma d_A02_210c : close ctol (6590327565891087 / 70368744177664) (clamp A02_lo A02_hi (6590327565891087 / 70368744177664)).
Proof. apply (A02_q_clamp_mid 6590327565891087 70368744177664 6590327565891087 70368744177664); vm_compute; reflexivity. Qed.
Lemma d_A02_218c : close ctol (3686436451118413 / 70368744177664) (clamp A02_lo A02_hi (7372872902236827 / 140737488355328)).
Proof. apply (A02_q_clamp_mid 7372872902236827 140737488355328 3686436451118413 70368744177664); vm_compute; reflexivity. Qed.
Lemma d_A02_226c : close ctol (145 / 1) (clamp A02_lo A02_hi (212 / 1)).
Proof. apply (A02_q_clamp_hi 212 1 145 1); vm_compute; reflexivity. Qed.
Lemma d_A02_234c : close ctol (637580589919941 / 17592186044416) (clamp A02_lo A02_hi (637580589919941 / 17592186044416)).
Proof. apply (A02_q_clamp_mid 637580589919941 17592186044416 637580589919941 17592186044416); vm_compute; reflexivity. Qed.
Lemma d_A02_242c : close ctol (145 / 1) (clamp A02_lo A02_hi (7552239152838223 / 17592186044416)).
Proof. apply (A02_q_clamp_hi 7552239152838223 17592186044416 145 1); vm_compute; reflexivity. Qed.
Lemma d_A02_250c : close ctol (145 / 1) (clamp A02_lo A02_hi (95278893573091 / 549755813888)).
Proof. apply (A02_q_clamp_hi 95278893573091 549755813888 145 1); vm_compute; reflexivity. Qed.
Lemma d_A02_258c : close ctol (145 / 1) (clamp A02_lo A02_hi (200 / 1)).
Proof. apply (A02_q_clamp_hi 200 1 145 1); vm_compute; reflexivity. Qed.
Lemma d_A02_266c : close ctol (145 / 1) (clamp A02_lo A02_hi (165 / 1)).
Proof. apply (A02_q_clamp_hi 165 1 145 1); vm_compute; reflexivity. Qed.
Lemma d_A02_274c : close ctol (145 / 1) (clamp A02_lo A02_hi (4982093706037829 / 137438953472)).
Proof. apply (A02_q_clamp_hi 4982093706037829 137438953472 145 1); vm_compute; reflexivity. Qed.
Lemma d_A02_282c : close ctol (1133418103791233 / 8796093022208) (clamp A02_lo A02_hi (1133418103791233 / 8796093022208)).
Proof. apply (A02_q_clamp_mid 1133418103791233 8796093022208 1133418103791233 8796093022208); vm_compute; reflexivity. Qed.
Lemma d_A02_290c : close ctol (45 / 2) (clamp A02_lo A02_hi (21 / 1)).
Proof. apply (A02_q_clamp_lo 21 1 45 2); vm_compute; reflexivity. Qed.
Lemma d_A02_298c : close ctol (7364679419600887 / 70368744177664) (clamp A02_lo A02_hi (7364679419600887 / 70368744177664)).
Proof. apply (A02_q_clamp_mid 7364679419600887 70368744177664 7364679419600887 70368744177664); vm_compute; reflexivity. Qed.
Lemma d_A02_306c : close ctol (1258321803932997 / 8796093022208) (clamp A02_lo A02_hi (1258321803932997 / 8796093022208)).
Proof. apply (A02_q_clamp_mid 1258321803932997 8796093022208 1258321803932997 8796093022208); vm_compute; reflexivity. Qed.
Lemma d_A02_314c : close ctol (2264081187475875 / 17592186044416) (clamp A02_lo A02_hi (2264081187475875 / 17592186044416)).
Proof. apply (A02_q_clamp_mid 2264081187475875 17592186044416 2264081187475875 17592186044416); vm_compute; reflexivity. Qed.
Lemma d_A02_322c : close ctol (2897635428241407 / 70368744177664) (clamp A02_lo A02_hi (2897635428241407 / 70368744177664)).
Proof. apply (A02_q_clamp_mid 2897635428241407 70368744177664 2897635428241407 70368744177664); vm_compute; reflexivity. Qed.
Lemma d_A02_330c : close ctol (1352936512217653 / 17592186044416) (clamp A02_lo A02_hi (1352936512217653 / 17592186044416)).
Proof. apply (A02_q_clamp_mid 1352936512217653 17592186044416 1352936512217653 17592186044416); vm_compute; reflexivity. Qed.
Lemma d_A02_338c : close ctol (3135136185483823 / 70368744177664) (clamp A02_lo A02_hi (3135136185483823 / 70368744177664)).
Proof. apply (A02_q_clamp_mid 3135136185483823 70368744177664 3135136185483823 70368744177664); vm_compute; reflexivity. Qed.
Lemma d_A02_346c : close ctol (45 / 2) (clamp A02_lo A02_hi (1850972084428433 / 562949953421312)).
Proof. apply (A02_q_clamp_lo 1850972084428433 562949953421312 45 2); vm_compute; reflexivity. Qed.
Lemma d_A02_354c : close ctol (4644237538700767 / 35184372088832) (clamp A02_lo A02_hi (4644237538700767 / 35184372088832)).
Proof. apply (A02_q_clamp_mid 4644237538700767 35184372088832 4644237538700767 35184372088832); vm_compute; reflexivity. Qed.
Lemma d_A02_362c : close ctol (145 / 1) (clamp A02_lo A02_hi (8422313043535949 / 35184372088832)).
Proof. apply (A02_q_clamp_hi 8422313043535949 35184372088832 145 1); vm_compute; reflexivity. Qed.
Lemma d_A02_370c : close ctol (145 / 1) (clamp A02_lo A02_hi (2974544122368067 / 8796093022208)).
Proof. apply (A02_q_clamp_hi 2974544122368067 8796093022208 145 1); vm_compute; reflexivity. Qed.
Lemma d_A02_378c : close ctol (6340232257287477 / 70368744177664) (clamp A02_lo A02_hi (6340232257287477 / 70368744177664)).
Proof. apply (A02_q_clamp_mid 6340232257287477 70368744177664 6340232257287477 70368744177664); vm_compute; reflexivity. Qed.
Lemma d_A02_386c : close ctol (3320605927698529 / 140737488355328) (clamp A02_lo A02_hi (6641211855397059 / 281474976710656)).
Proof. apply (A02_q_clamp_mid 6641211855397059 281474976710656 3320605927698529 140737488355328); vm_compute; reflexivity. Qed.
Lemma d_A02_394c : close ctol (45 / 2) (clamp A02_lo A02_hi (3119733867728325 / 18014398509481984)).
Proof. apply (A02_q_clamp_lo 3119733867728325 18014398509481984 45 2); vm_compute; reflexivity. Qed.
Lemma d_A02_402c : close ctol (7830319853292451 / 281474976710656) (clamp A02_lo A02_hi (1957579963323113 / 70368744177664)).
Proof. apply (A02_q_clamp_mid 1957579963323113 70368744177664 7830319853292451 281474976710656); vm_compute; reflexivity. Qed.
Lemma d_A02_410c : close ctol (6975535040796193 / 140737488355328) (clamp A02_lo A02_hi (6975535040796193 / 140737488355328)).
Proof. apply (A02_q_clamp_mid 6975535040796193 140737488355328 6975535040796193 140737488355328); vm_compute; reflexivity. Qed.
Lemma d_A02_418c : close ctol (7462326513600171 / 140737488355328) (clamp A02_lo A02_hi (1865581628400043 / 35184372088832)).
Proof. apply (A02_q_clamp_mid 1865581628400043 35184372088832 7462326513600171 140737488355328); vm_compute; reflexivity. Qed.
Lemma d_A02_426c : close ctol (3400393997820701 / 70368744177664) (clamp A02_lo A02_hi (3400393997820701 / 70368744177664)).
Proof. apply (A02_q_clamp_mid 3400393997820701 70368744177664 3400393997820701 70368744177664); vm_compute; reflexivity. Qed.
Lemma d_A02_434c : close ctol (372564041796689 / 8796093022208) (clamp A02_lo A02_hi (372564041796689 / 8796093022208)).
Proof. apply (A02_q_clamp_mid 372564041796689 8796093022208 372564041796689 8796093022208); vm_compute; reflexivity. Qed.
Lemma d_A02_442c : close ctol (7904213819589181 / 140737488355328) (clamp A02_lo A02_hi (1976053454897295 / 35184372088832)).
Proof. apply (A02_q_clamp_mid 1976053454897295 35184372088832 7904213819589181 140737488355328); vm_compute; reflexivity. Qed.
Lemma d_A02_450c : close ctol (145 / 1) (clamp A02_lo A02_hi (209052561541205 / 549755813888)).
Proof. apply (A02_q_clamp_hi 209052561541205 549755813888 145 1); vm_compute; reflexivity. Qed.
Lemma d_A02_458c : close ctol (9006175030177279 / 140737488355328) (clamp A02_lo A02_hi (17590185605815 / 274877906944)).
Proof. apply (A02_q_clamp_mid 17590185605815 274877906944 9006175030177279 140737488355328); vm_compute; reflexivity. Qed.
Lemma d_A02_466c : close ctol (3487257314825841 / 35184372088832) (clamp A02_lo A02_hi (3487257314825841 / 35184372088832)).
Proof. apply (A02_q_clamp_mid 3487257314825841 35184372088832 3487257314825841 35184372088832); vm_compute; reflexivity. Qed.
Lemma d_A02_474c : close ctol (1800500396763955 / 17592186044416) (clamp A02_lo A02_hi (1800500396763955 / 17592186044416)).
Proof. apply (A02_q_clamp_mid 1800500396763955 17592186044416 1800500396763955 17592186044416); vm_compute; reflexivity. Qed.
Lemma d_A02_482c : close ctol (7686201901678729 / 70368744177664) (clamp A02_lo A02_hi (960775237709841 / 8796093022208)).
Proof. apply (A02_q_clamp_mid 960775237709841 8796093022208 7686201901678729 70368744177664); vm_compute; reflexivity. Qed.
Lemma d_A02_490c : close ctol (4295305904719359 / 140737488355328) (clamp A02_lo A02_hi (4295305904719359 / 140737488355328)).
Proof. apply (A02_q_clamp_mid 4295305904719359 140737488355328 4295305904719359 140737488355328); vm_compute; reflexivity. Qed.
Lemma d_A02_498c : close ctol (4881005779345205 / 70368744177664) (clamp A02_lo A02_hi (4881005779345205 / 70368744177664)).
Proof. apply (A02_q_clamp_mid 4881005779345205 70368744177664 4881005779345205 70368744177664); vm_compute; reflexivity. Qed.
Lemma d_A02_506c : close ctol (3622579261343553 / 35184372088832) (clamp A02_lo A02_hi (3622579261343553 / 35184372088832)).
Proof. apply (A02_q_clamp_mid 3622579261343553 35184372088832 3622579261343553 35184372088832); vm_compute; reflexivity. Qed.
Lemma d_A02_514c : close ctol (7883448634767153 / 70368744177664) (clamp A02_lo A02_hi (3941724317383577 / 35184372088832)).
Proof. apply (A02_q_clamp_mid 3941724317383577 35184372088832 7883448634767153 70368744177664); vm_compute; reflexivity. Qed.
Lemma d_A02_522c : close ctol (6590509064835029 / 140737488355328) (clamp A02_lo A02_hi (6590509064835029 / 140737488355328)).
Proof. apply (A02_q_clamp_mid 6590509064835029 140737488355328 6590509064835029 140737488355328); vm_compute; reflexivity. Qed.
Lemma d_A02_530c : close ctol (1225403017263985 / 8796093022208) (clamp A02_lo A02_hi (1225403017263985 / 8796093022208)).
Proof. apply (A02_q_clamp_mid 1225403017263985 8796093022208 1225403017263985 8796093022208); vm_compute; reflexivity. Qed.
Lemma d_A02_538c : close ctol (6020658487792351 / 70368744177664) (clamp A02_lo A02_hi (6020658487792351 / 70368744177664)).
Proof. apply (A02_q_clamp_mid 6020658487792351 70368744177664 6020658487792351 70368744177664); vm_compute; reflexivity. Qed.
Lemma d_A02_546c : close ctol (2434647576928157 / 17592186044416) (clamp A02_lo A02_hi (2434647576928157 / 17592186044416)).
Proof. apply (A02_q_clamp_mid 2434647576928157 17592186044416 2434647576928157 17592186044416); vm_compute; reflexivity. Qed.
Lemma d_A02_554c : close ctol (145 / 1) (clamp A02_lo A02_hi (217 / 1)).
Proof. apply (A02_q_clamp_hi 217 1 145 1); vm_compute; reflexivity. Qed.
Lemma d_A02_562c : close ctol (145 / 1) (clamp A02_lo A02_hi (2632154978576971 / 17592186044416)).
Proof. apply (A02_q_clamp_hi 2632154978576971 17592186044416 145 1); vm_compute; reflexivity. Qed.
Lemma d_A02_570c : close ctol (1661521172120967 / 35184372088832) (clamp A02_lo A02_hi (1661521172120967 / 35184372088832)).
Proof. apply (A02_q_clamp_mid 1661521172120967 35184372088832 1661521172120967 35184372088832); vm_compute; reflexivity. Qed.
Lemma d_A02_578c : close ctol (7690831323374215 / 140737488355328) (clamp A02_lo A02_hi (7690831323374215 / 140737488355328)).
Proof. apply (A02_q_clamp_mid 7690831323374215 140737488355328 7690831323374215 140737488355328); vm_compute; reflexivity. Qed.
Lemma d_A02_586c : close ctol (7280372630957765 / 281474976710656) (clamp A02_lo A02_hi (3640186315478883 / 140737488355328)).
Proof. apply (A02_q_clamp_mid 3640186315478883 140737488355328 7280372630957765 281474976710656); vm_compute; reflexivity. Qed.
Lemma d_A02_594c : close ctol (1287821016161447 / 35184372088832) (clamp A02_lo A02_hi (1287821016161447 / 35184372088832)).
Proof. apply (A02_q_clamp_mid 1287821016161447 35184372088832 1287821016161447 35184372088832); vm_compute; reflexivity. Qed.
Lemma d_A02_602c : close ctol (3086405613263385 / 70368744177664) (clamp A02_lo A02_hi (3086405613263385 / 70368744177664)).
Proof. apply (A02_q_clamp_mid 3086405613263385 70368744177664 3086405613263385 70368744177664); vm_compute; reflexivity. Qed.
Lemma d_A02_610c : close ctol (6759407724606099 / 70368744177664) (clamp A02_lo A02_hi (6759407724606099 / 70368744177664)).
Proof. apply (A02_q_clamp_mid 6759407724606099 70368744177664 6759407724606099 70368744177664); vm_compute; reflexivity. Qed.
Lemma d_A02_618c : close ctol (512968818979947 / 4398046511104) (clamp A02_lo A02_hi (8207501103679153 / 70368744177664)).
Proof. apply (A02_q_clamp_mid 8207501103679153 70368744177664 512968818979947 4398046511104); vm_compute; reflexivity. Qed.
Lemma d_A02_626c : close ctol (3284354023360165 / 70368744177664) (clamp A02_lo A02_hi (3284354023360165 / 70368744177664)).
Proof. apply (A02_q_clamp_mid 3284354023360165 70368744177664 3284354023360165 70368744177664); vm_compute; reflexivity. Qed.
Lemma d_A02_634c : close ctol (145 / 1) (clamp A02_lo A02_hi (282 / 1)).
Proof. apply (A02_q_clamp_hi 282 1 145 1); vm_compute; reflexivity. Qed.
Lemma d_A02_642c : close ctol (2492149721787521 / 17592186044416) (clamp A02_lo A02_hi (2492149721787521 / 17592186044416)).
Proof. apply (A02_q_clamp_mid 2492149721787521 17592186044416 2492149721787521 17592186044416); vm_compute; reflexivity. Qed.
Lemma d_A02_650c : close ctol (122613544009767 / 2199023255552) (clamp A02_lo A02_hi (122613544009767 / 2199023255552)).
Proof. apply (A02_q_clamp_mid 122613544009767 2199023255552 122613544009767 2199023255552); vm_compute; reflexivity. Qed.
Lemma d_A02_658c : close ctol (4225359678127083 / 35184372088832) (clamp A02_lo A02_hi (8450719356254165 / 70368744177664)).
Proof. apply (A02_q_clamp_mid 8450719356254165 70368744177664 4225359678127083 35184372088832); vm_compute; reflexivity. Qed.
Lemma d_A02_666c : close ctol (145 / 1) (clamp A02_lo A02_hi (262 / 1)).
Proof. apply (A02_q_clamp_hi 262 1 145 1); vm_compute; reflexivity. Qed.
Lemma r_A21_445 : rio_reads A21_c A21_e A21_lo A21_hi floor_volts ctol (Build_rio (Fin (7737125245533627 / 77371252455336267181195264)) PInf (Fin (3715469692580659 / 1125899906842624)) (Fin (6 / 1)) (Fin (12 / 1)) true true true ((Fin (0 / 1)) :: (Fin (0 / 1)) :: (Fin (0 / 1)) :: (Fin (0 / 1)) :: (Fin (27 / 4)) :: (Fin (45 / 1)) :: nil)) (80 / 1).
Proof. apply (A21_rio_fin _ (7737125245533627 / 77371252455336267181195264)); [reflexivity | apply (A21_q_floor 7737125245533627 77371252455336267181195264 80 1); vm_compute; reflexivity]. Qed.
Lemma d_A21_668c : close ctol (10 / 1) (clamp A21_lo A21_hi ((-5) / 1)).
Proof. apply (A21_q_clamp_lo (-5) 1 10 1); vm_compute; reflexivity. Qed.
Lemma d_A21_676c : close ctol (10 / 1) (clamp A21_lo A21_hi (2 / 1)).
Proof. apply (A21_q_clamp_lo 2 1 10 1); vm_compute; reflexivity. Qed.
Lemma d_A21_684c : close ctol (80 / 1) (clamp A21_lo A21_hi (1000000000000000052504760255204420248704468581108159154915854115511802457988908195786371375080447864043704443832883878176942523235360430575644792184786706982848387200926575803737830233794788090059368953234970799945081119038967640880074652742780142494579258788820056842838115669472196386865459400540160 / 1)).
Proof. apply (A21_q_clamp_hi 1000000000000000052504760255204420248704468581108159154915854115511802457988908195786371375080447864043704443832883878176942523235360430575644792184786706982848387200926575803737830233794788090059368953234970799945081119038967640880074652742780142494579258788820056842838115669472196386865459400540160 1 80 1); vm_compute; reflexivity. Qed.
Lemma d_A21_692c : close ctol (10 / 1) (clamp A21_lo A21_hi (6032057205060441 / 6032057205060440848842124543157735677050252251748505781796615064961622344493727293370973578138265743708225425014400837164813540499979063179105919597766951022193355091707896034850684039059079180396788349106095584290087446076413771468940477241550670753145517602931224392424029547429993824129889235158145614364972941312)).
Proof. apply (A21_q_clamp_lo 6032057205060441 6032057205060440848842124543157735677050252251748505781796615064961622344493727293370973578138265743708225425014400837164813540499979063179105919597766951022193355091707896034850684039059079180396788349106095584290087446076413771468940477241550670753145517602931224392424029547429993824129889235158145614364972941312 10 1); vm_compute; reflexivity. Qed.
Lemma d_A21_700c : close ctol (60 / 1) (clamp A21_lo A21_hi (60 / 1)).
Proof. apply (A21_q_clamp_mid 60 1 60 1); vm_compute; reflexivity. Qed.
Lemma d_A21_709c : close ctol (10 / 1) (clamp A21_lo A21_hi (10 / 1)).
Proof. apply (A21_q_clamp_lo 10 1 10 1); vm_compute; reflexivity. Qed.
Lemma d_A21_717c : close ctol (2814749764291811 / 35184372088832) (clamp A21_lo A21_hi (5629499528583621 / 70368744177664)).
Proof. apply (A21_q_clamp_mid 5629499528583621 70368744177664 2814749764291811 35184372088832); vm_compute; reflexivity. Qed.
Lemma d_A21_725c : close ctol (80 / 1) (clamp A21_lo A21_hi (8111348463907377 / 17592186044416)).
Proof. apply (A21_q_clamp_hi 8111348463907377 17592186044416 80 1); vm_compute; reflexivity. Qed.
Lemma d_A21_733c : close ctol (10 / 1) (clamp A21_lo A21_hi ((-41772812889819) / 140737488355328)).
Proof. apply (A21_q_clamp_lo (-41772812889819) 140737488355328 10 1); vm_compute; reflexivity. Qed.
Lemma d_A21_741c : close ctol (80 / 1) (clamp A21_lo A21_hi (1546025403569033 / 17592186044416)).
Proof. apply (A21_q_clamp_hi 1546025403569033 17592186044416 80 1); vm_compute; reflexivity. Qed.
Lemma d_A21_749c : close ctol (152125029673989 / 2199023255552) (clamp A21_lo A21_hi (152125029673989 / 2199023255552)).
Proof. apply (A21_q_clamp_mid 152125029673989 2199023255552 152125029673989 2199023255552); vm_compute; reflexivity. Qed.
Lemma d_A21_757c : close ctol (80 / 1) (clamp A21_lo A21_hi (3029693008609445 / 1099511627776)).
Proof. apply (A21_q_clamp_hi 3029693008609445 1099511627776 80 1); vm_compute; reflexivity. Qed.
Lemma d_A21_765c : close ctol (80 / 1) (clamp A21_lo A21_hi (4746487684748871 / 35184372088832)).
Proof. apply (A21_q_clamp_hi 4746487684748871 35184372088832 80 1); vm_compute; reflexivity. Qed.
Lemma d_A21_773c : close ctol (4388797227525165 / 140737488355328) (clamp A21_lo A21_hi (8777594455050329 / 281474976710656)).
Proof. apply (A21_q_clamp_mid 8777594455050329 281474976710656 4388797227525165 140737488355328); vm_compute; reflexivity. Qed.
Lemma d_A21_781c : close ctol (3003696392095773 / 70368744177664) (clamp A21_lo A21_hi (3003696392095773 / 70368744177664)).
Proof. apply (A21_q_clamp_mid 3003696392095773 70368744177664 3003696392095773 70368744177664); vm_compute; reflexivity. Qed.
Lemma d_A21_789c : close ctol (8358007799861677 / 140737488355328) (clamp A21_lo A21_hi (8358007799861677 / 140737488355328)).
Proof. apply (A21_q_clamp_mid 8358007799861677 140737488355328 8358007799861677 140737488355328); vm_compute; reflexivity. Qed.
Lemma d_A21_797c : close ctol (4797549353994125 / 70368744177664) (clamp A21_lo A21_hi (4797549353994125 / 70368744177664)).
Proof. apply (A21_q_clamp_mid 4797549353994125 70368744177664 4797549353994125 70368744177664); vm_compute; reflexivity. Qed.
Lemma d_A21_805c : close ctol (80 / 1) (clamp A21_lo A21_hi (2449242728751001 / 4398046511104)).
Proof. apply (A21_q_clamp_hi 2449242728751001 4398046511104 80 1); vm_compute; reflexivity. Qed.
Lemma d_A21_813c : close ctol (3140511100376165 / 281474976710656) (clamp A21_lo A21_hi (6281022200752331 / 562949953421312)).
Proof. apply (A21_q_clamp_mid 6281022200752331 562949953421312 3140511100376165 281474976710656); vm_compute; reflexivity. Qed.
Lemma d_A21_821c : close ctol (10 / 1) (clamp A21_lo A21_hi (575606350087047 / 281474976710656)).
Proof. apply (A21_q_clamp_lo 575606350087047 281474976710656 10 1); vm_compute; reflexivity. Qed.
Lemma d_A21_829c : close ctol (290537538128677 / 4398046511104) (clamp A21_lo A21_hi (290537538128677 / 4398046511104)).
Proof. apply (A21_q_clamp_mid 290537538128677 4398046511104 290537538128677 4398046511104); vm_compute; reflexivity. Qed.
Lemma d_A21_837c : close ctol (80 / 1) (clamp A21_lo A21_hi (1317939952738427 / 8796093022208)).
Proof. apply (A21_q_clamp_hi 1317939952738427 8796093022208 80 1); vm_compute; reflexivity. Qed.
Lemma d_A21_845c : close ctol (10 / 1) (clamp A21_lo A21_hi (2451643319617977 / 281474976710656)).
Proof. apply (A21_q_clamp_lo 2451643319617977 281474976710656 10 1); vm_compute; reflexivity. Qed.
Lemma d_A21_853c : close ctol (7976169676698459 / 562949953421312) (clamp A21_lo A21_hi (1994042419174615 / 140737488355328)).
Proof. apply (A21_q_clamp_mid 1994042419174615 140737488355328 7976169676698459 562949953421312); vm_compute; reflexivity. Qed.
Lemma d_A21_861c : close ctol (80 / 1) (clamp A21_lo A21_hi (150 / 1)).
Proof. apply (A21_q_clamp_hi 150 1 80 1); vm_compute; reflexivity. Qed.
Lemma d_A21_869c : close ctol (7232827277301929 / 140737488355328) (clamp A21_lo A21_hi (7232827277301929 / 140737488355328)).
Proof. apply (A21_q_clamp_mid 7232827277301929 140737488355328 7232827277301929 140737488355328); vm_compute; reflexivity. Qed.
Lemma d_A21_877c : close ctol (7488940775923881 / 281474976710656) (clamp A21_lo A21_hi (7488940775923881 / 281474976710656)).
Proof. apply (A21_q_clamp_mid 7488940775923881 281474976710656 7488940775923881 281474976710656); vm_compute; reflexivity. Qed.
Lemma d_A21_885c : close ctol (5002818000427183 / 70368744177664) (clamp A21_lo A21_hi (2501409000213591 / 35184372088832)).
Proof. apply (A21_q_clamp_mid 2501409000213591 35184372088832 5002818000427183 70368744177664); vm_compute; reflexivity. Qed.
Lemma d_A21_893c : close ctol (80 / 1) (clamp A21_lo A21_hi (2727286170131395 / 1099511627776)).
Proof. apply (A21_q_clamp_hi 2727286170131395 1099511627776 80 1); vm_compute; reflexivity. Qed.
Lemma d_A21_901c : close ctol (7847006058836033 / 562949953421312) (clamp A21_lo A21_hi (7847006058836033 / 562949953421312)).
Proof. apply (A21_q_clamp_mid 7847006058836033 562949953421312 7847006058836033 562949953421312); vm_compute; reflexivity. Qed.
Lemma d_A21_909c : close ctol (2671088136157921 / 70368744177664) (clamp A21_lo A21_hi (2671088136157921 / 70368744177664)).
Proof. apply (A21_q_clamp_mid 2671088136157921 70368744177664 2671088136157921 70368744177664); vm_compute; reflexivity. Qed.
Lemma d_A21_917c : close ctol (342843795769941 / 4398046511104) (clamp A21_lo A21_hi (342843795769941 / 4398046511104)).
Proof. apply (A21_q_clamp_mid 342843795769941 4398046511104 342843795769941 4398046511104); vm_compute; reflexivity. Qed.
Lemma d_A21_925c : close ctol (3390238068545955 / 281474976710656) (clamp A21_lo A21_hi (3390238068545955 / 281474976710656)).
Proof. apply (A21_q_clamp_mid 3390238068545955 281474976710656 3390238068545955 281474976710656); vm_compute; reflexivity. Qed.
Lemma d_A21_933c : close ctol (2060135482908505 / 70368744177664) (clamp A21_lo A21_hi (8240541931634019 / 281474976710656)).
Proof. apply (A21_q_clamp_mid 8240541931634019 281474976710656 2060135482908505 70368744177664); vm_compute; reflexivity. Qed.
Lemma d_A21_941c : close ctol (1628733520825901 / 70368744177664) (clamp A21_lo A21_hi (1628733520825901 / 70368744177664)).
Proof. apply (A21_q_clamp_mid 1628733520825901 70368744177664 1628733520825901 70368744177664); vm_compute; reflexivity. Qed.
Lemma d_A21_949c : close ctol (312513629654099 / 8796093022208) (clamp A21_lo A21_hi (5000218074465583 / 140737488355328)).
Proof. apply (A21_q_clamp_mid 5000218074465583 140737488355328 312513629654099 8796093022208); vm_compute; reflexivity. Qed.
Lemma d_A21_957c : close ctol (2419679324231089 / 70368744177664) (clamp A21_lo A21_hi (2419679324231089 / 70368744177664)).
Proof. apply (A21_q_clamp_mid 2419679324231089 70368744177664 2419679324231089 70368744177664); vm_compute; reflexivity. Qed.
Lemma d_A21_965c : close ctol (357510600712641 / 8796093022208) (clamp A21_lo A21_hi (357510600712641 / 8796093022208)).
Proof. apply (A21_q_clamp_mid 357510600712641 8796093022208 357510600712641 8796093022208); vm_compute; reflexivity. Qed.
Lemma d_A21_973c : close ctol (6267851670304411 / 140737488355328) (clamp A21_lo A21_hi (3133925835152205 / 70368744177664)).
Proof. apply (A21_q_clamp_mid 3133925835152205 70368744177664 6267851670304411 140737488355328); vm_compute; reflexivity. Qed.
Lemma d_A21_981c : close ctol (1455516568757959 / 35184372088832) (clamp A21_lo A21_hi (1455516568757959 / 35184372088832)).
Proof. apply (A21_q_clamp_mid 1455516568757959 35184372088832 1455516568757959 35184372088832); vm_compute; reflexivity. Qed.
Lemma d_A21_989c : close ctol (301094646713363 / 8796093022208) (clamp A21_lo A21_hi (301094646713363 / 8796093022208)).
Proof. apply (A21_q_clamp_mid 301094646713363 8796093022208 301094646713363 8796093022208); vm_compute; reflexivity. Qed.
Lemma d_A21_997c : close ctol (2604689896622813 / 70368744177664) (clamp A21_lo A21_hi (2604689896622813 / 70368744177664)).
Proof. apply (A21_q_clamp_mid 2604689896622813 70368744177664 2604689896622813 70368744177664); vm_compute; reflexivity. Qed.
Lemma d_A21_1005c : close ctol (3159990020176731 / 70368744177664) (clamp A21_lo A21_hi (3159990020176731 / 70368744177664)).
Proof. apply (A21_q_clamp_mid 3159990020176731 70368744177664 3159990020176731 70368744177664); vm_compute; reflexivity. Qed.
Lemma d_A21_1013c : close ctol (1227635065900567 / 17592186044416) (clamp A21_lo A21_hi (1227635065900567 / 17592186044416)).
Proof. apply (A21_q_clamp_mid 1227635065900567 17592186044416 1227635065900567 17592186044416); vm_compute; reflexivity. Qed.
Lemma d_A21_1021c : close ctol (10 / 1) (clamp A21_lo A21_hi (2553358067812495 / 562949953421312)).
Proof. apply (A21_q_clamp_lo 2553358067812495 562949953421312 10 1); vm_compute; reflexivity. Qed.
Lemma d_A21_1029c : close ctol (2469144365901227 / 70368744177664) (clamp A21_lo A21_hi (2469144365901227 / 70368744177664)).
Proof. apply (A21_q_clamp_mid 2469144365901227 70368744177664 2469144365901227 70368744177664); vm_compute; reflexivity. Qed.
Lemma d_A21_1037c : close ctol (80 / 1) (clamp A21_lo A21_hi (8386563475221295 / 35184372088832)).
Proof. apply (A21_q_clamp_hi 8386563475221295 35184372088832 80 1); vm_compute; reflexivity. Qed.
Lemma d_A21_1045c : close ctol (623492265361577 / 17592186044416) (clamp A21_lo A21_hi (623492265361577 / 17592186044416)).
Proof. apply (A21_q_clamp_mid 623492265361577 17592186044416 623492265361577 17592186044416); vm_compute; reflexivity. Qed.
Lemma d_A21_1053c : close ctol (2465780924458773 / 35184372088832) (clamp A21_lo A21_hi (2465780924458773 / 35184372088832)).
Proof. apply (A21_q_clamp_mid 2465780924458773 35184372088832 2465780924458773 35184372088832); vm_compute; reflexivity. Qed.
Lemma d_A21_1061c : close ctol (7005498509722655 / 140737488355328) (clamp A21_lo A21_hi (7005498509722655 / 140737488355328)).
Proof. apply (A21_q_clamp_mid 7005498509722655 140737488355328 7005498509722655 140737488355328); vm_compute; reflexivity. Qed.
Lemma d_A21_1069c : close ctol (1056782352077453 / 17592186044416) (clamp A21_lo A21_hi (8454258816619625 / 140737488355328)).
Proof. apply (A21_q_clamp_mid 8454258816619625 140737488355328 1056782352077453 17592186044416); vm_compute; reflexivity. Qed.
Lemma d_A21_1077c : close ctol (2550225387390855 / 35184372088832) (clamp A21_lo A21_hi (2550225387390855 / 35184372088832)).
Proof. apply (A21_q_clamp_mid 2550225387390855 35184372088832 2550225387390855 35184372088832); vm_compute; reflexivity. Qed.
Lemma d_A21_1085c : close ctol (3404689076904849 / 281474976710656) (clamp A21_lo A21_hi (3404689076904849 / 281474976710656)).
Proof. apply (A21_q_clamp_mid 3404689076904849 281474976710656 3404689076904849 281474976710656); vm_compute; reflexivity. Qed.
Lemma d_A21_1093c : close ctol (8490184309908039 / 140737488355328) (clamp A21_lo A21_hi (4245092154954019 / 70368744177664)).
Proof. apply (A21_q_clamp_mid 4245092154954019 70368744177664 8490184309908039 140737488355328); vm_compute; reflexivity. Qed.
Lemma d_A21_1101c : close ctol (8121471804736457 / 140737488355328) (clamp A21_lo A21_hi (8121471804736457 / 140737488355328)).
Proof. apply (A21_q_clamp_mid 8121471804736457 140737488355328 8121471804736457 140737488355328); vm_compute; reflexivity. Qed.
Lemma d_A21_1109c : close ctol (10 / 1) (clamp A21_lo A21_hi (3231503839827901 / 1125899906842624)).
Proof. apply (A21_q_clamp_lo 3231503839827901 1125899906842624 10 1); vm_compute; reflexivity. Qed.
Lemma d_A21_1117c : close ctol (2381102989813211 / 70368744177664) (clamp A21_lo A21_hi (2381102989813211 / 70368744177664)).
Proof. apply (A21_q_clamp_mid 2381102989813211 70368744177664 2381102989813211 70368744177664); vm_compute; reflexivity. Qed.
Lemma d_A21_1125c : close ctol (5499963270197073 / 140737488355328) (clamp A21_lo A21_hi (343747704387317 / 8796093022208)).
Proof. apply (A21_q_clamp_mid 343747704387317 8796093022208 5499963270197073 140737488355328); vm_compute; reflexivity. Qed.
Lemma d_A21_1133c : close ctol (4931041990061083 / 70368744177664) (clamp A21_lo A21_hi (2465520995030541 / 35184372088832)).
Proof. apply (A21_q_clamp_mid 2465520995030541 35184372088832 4931041990061083 70368744177664); vm_compute; reflexivity. Qed.
Lemma d_A21_1141c : close ctol (702349378783485 / 17592186044416) (clamp A21_lo A21_hi (702349378783485 / 17592186044416)).
Proof. apply (A21_q_clamp_mid 702349378783485 17592186044416 702349378783485 17592186044416); vm_compute; reflexivity. Qed.
Lemma d_A21_1149c : close ctol (80 / 1) (clamp A21_lo A21_hi (2617286084763553 / 137438953472)).
Proof. apply (A21_q_clamp_hi 2617286084763553 137438953472 80 1); vm_compute; reflexivity. Qed.
Lemma d_A21_1157c : close ctol (5599892612412885 / 70368744177664) (clamp A21_lo A21_hi (1399973153103221 / 17592186044416)).
Proof. apply (A21_q_clamp_mid 1399973153103221 17592186044416 5599892612412885 70368744177664); vm_compute; reflexivity. Qed.
Lemma d_A21_1165c : close ctol (80 / 1) (clamp A21_lo A21_hi (122 / 1)).
Proof. apply (A21_q_clamp_hi 122 1 80 1); vm_compute; reflexivity. Qed.
Lemma d_A21_1173c : close ctol (3060770201820825 / 70368744177664) (clamp A21_lo A21_hi (3060770201820825 / 70368744177664)).
Proof. apply (A21_q_clamp_mid 3060770201820825 70368744177664 3060770201820825 70368744177664); vm_compute; reflexivity. Qed.
Lemma d_A21_1181c : close ctol (2477396666030329 / 70368744177664) (clamp A21_lo A21_hi (2477396666030329 / 70368744177664)).
Proof. apply (A21_q_clamp_mid 2477396666030329 70368744177664 2477396666030329 70368744177664); vm_compute; reflexivity. Qed.
Lemma d_A21_1189c : close ctol (1091925914733945 / 17592186044416) (clamp A21_lo A21_hi (4367703658935779 / 70368744177664)).
Proof. apply (A21_q_clamp_mid 4367703658935779 70368744177664 1091925914733945 17592186044416); vm_compute; reflexivity. Qed.
Lemma d_A21_1197c : close ctol (2489384924749623 / 35184372088832) (clamp A21_lo A21_hi (2489384924749623 / 35184372088832)).
Proof. apply (A21_q_clamp_mid 2489384924749623 35184372088832 2489384924749623 35184372088832); vm_compute; reflexivity. Qed.
Lemma d_A21_1205c : close ctol (10 / 1) (clamp A21_lo A21_hi (4779806932377633 / 288230376151711744)).
Proof. apply (A21_q_clamp_lo 4779806932377633 288230376151711744 10 1); vm_compute; reflexivity. Qed.
Lemma d_A21_1213c : close ctol (80 / 1) (clamp A21_lo A21_hi (87 / 1)).
Proof. apply (A21_q_clamp_hi 87 1 80 1); vm_compute; reflexivity. Qed.
Lemma d_A21_1221c : close ctol (4131159345003011 / 140737488355328) (clamp A21_lo A21_hi (4131159345003011 / 140737488355328)).
Proof. apply (A21_q_clamp_mid 4131159345003011 140737488355328 4131159345003011 140737488355328); vm_compute; reflexivity. Qed.
Lemma d_A21_1229c : close ctol (2674260247227971 / 140737488355328) (clamp A21_lo A21_hi (2674260247227971 / 140737488355328)).
Proof. apply (A21_q_clamp_mid 2674260247227971 140737488355328 2674260247227971 140737488355328); vm_compute; reflexivity. Qed.
Lemma d_A21_1237c : close ctol (80 / 1) (clamp A21_lo A21_hi (3982847859477137 / 17592186044416)).
Proof. apply (A21_q_clamp_hi 3982847859477137 17592186044416 80 1); vm_compute; reflexivity. Qed.
Lemma d_A21_1245c : close ctol (3276274656305397 / 70368744177664) (clamp A21_lo A21_hi (3276274656305397 / 70368744177664)).
Proof. apply (A21_q_clamp_mid 3276274656305397 70368744177664 3276274656305397 70368744177664); vm_compute; reflexivity. Qed.
Lemma d_A21_1253c : close ctol (7802769092972201 / 562949953421312) (clamp A21_lo A21_hi (975346136621525 / 70368744177664)).
Proof. apply (A21_q_clamp_mid 975346136621525 70368744177664 7802769092972201 562949953421312); vm_compute; reflexivity. Qed.
Lemma d_A21_1261c : close ctol (80 / 1) (clamp A21_lo A21_hi (3231565397249539 / 17592186044416)).
Proof. apply (A21_q_clamp_hi 3231565397249539 17592186044416 80 1); vm_compute; reflexivity. Qed.
Lemma d_A21_1269c : close ctol (1498878938809255 / 35184372088832) (clamp A21_lo A21_hi (1498878938809255 / 35184372088832)).
Proof. apply (A21_q_clamp_mid 1498878938809255 35184372088832 1498878938809255 35184372088832); vm_compute; reflexivity. Qed.
Lemma d_A21_1277c : close ctol (8758916715265417 / 281474976710656) (clamp A21_lo A21_hi (4379458357632709 / 140737488355328)).
Proof. apply (A21_q_clamp_mid 4379458357632709 140737488355328 8758916715265417 281474976710656); vm_compute; reflexivity. Qed.
Lemma d_A21_1285c : close ctol (8991069592710877 / 562949953421312) (clamp A21_lo A21_hi (8991069592710877 / 562949953421312)).
Proof. apply (A21_q_clamp_mid 8991069592710877 562949953421312 8991069592710877 562949953421312); vm_compute; reflexivity. Qed.
Lemma d_A21_1293c : close ctol (7323171676073215 / 281474976710656) (clamp A21_lo A21_hi (7323171676073215 / 281474976710656)).
Proof. apply (A21_q_clamp_mid 7323171676073215 281474976710656 7323171676073215 281474976710656); vm_compute; reflexivity. Qed.
Lemma d_A21_1301c : close ctol (1541831378888581 / 35184372088832) (clamp A21_lo A21_hi (1541831378888581 / 35184372088832)).
Proof. apply (A21_q_clamp_mid 1541831378888581 35184372088832 1541831378888581 35184372088832); vm_compute; reflexivity. Qed.
Lemma d_A21_1309c : close ctol (6672466906683767 / 281474976710656) (clamp A21_lo A21_hi (834058363335471 / 35184372088832)).
Proof. apply (A21_q_clamp_mid 834058363335471 35184372088832 6672466906683767 281474976710656); vm_compute; reflexivity. Qed.
Lemma d_A21_1317c : close ctol (1692002098391975 / 70368744177664) (clamp A21_lo A21_hi (1692002098391975 / 70368744177664)).
Proof. apply (A21_q_clamp_mid 1692002098391975 70368744177664 1692002098391975 70368744177664); vm_compute; reflexivity. Qed.
Lemma d_A21_1325c : close ctol (298626619442571 / 4398046511104) (clamp A21_lo A21_hi (298626619442571 / 4398046511104)).
Proof. apply (A21_q_clamp_mid 298626619442571 4398046511104 298626619442571 4398046511104); vm_compute; reflexivity. Qed.
Lemma r_A41_846 : rio_reads A41_c A41_e A41_lo A41_hi floor_volts ctol (Build_rio (Fin (0 / 1)) (Fin (5 / 1)) (Fin (3715469692580659 / 1125899906842624)) (Fin (6 / 1)) (Fin (12 / 1)) true true true ((Fin (0 / 1)) :: (Fin (0 / 1)) :: (Fin (0 / 1)) :: (Fin (0 / 1)) :: (Fin (13 / 1)) :: (Fin (45 / 1)) :: nil)) (9 / 2).
Proof. apply (A41_rio_fin _ (0 / 1)); [reflexivity | apply (A41_q_floor 0 1 9 2); vm_compute; reflexivity]. Qed.
Lemma r_A41_871 : rio_reads A41_c A41_e A41_lo A41_hi floor_volts ctol (Build_rio (Fin (368934881474191 / 36893488147419103232)) (Fin (5629499534213119 / 1125899906842624)) (Fin (3715469692580659 / 1125899906842624)) (Fin (6 / 1)) (Fin (12 / 1)) true true true ((Fin (0 / 1)) :: (Fin (0 / 1)) :: (Fin (0 / 1)) :: (Fin (0 / 1)) :: (Fin (27 / 4)) :: (Fin (45 / 1)) :: nil)) (35 / 1).
Proof. apply (A41_rio_fin _ (368934881474191 / 36893488147419103232)); [reflexivity | apply (A41_q_floor 368934881474191 36893488147419103232 35 1); vm_compute; reflexivity]. Qed.
Lemma d_A41_1334c : close ctol (9 / 2) (clamp A41_lo A41_hi ((-5) / 1)).
Proof. apply (A41_q_clamp_lo (-5) 1 9 2); vm_compute; reflexivity. Qed.
Lemma d_A41_1342c : close ctol (9 / 2) (clamp A41_lo A41_hi (2 / 1)).
Proof. apply (A41_q_clamp_lo 2 1 9 2); vm_compute; reflexivity. Qed.
Lemma d_A41_1350c : close ctol (35 / 1) (clamp A41_lo A41_hi (1000000000000000052504760255204420248704468581108159154915854115511802457988908195786371375080447864043704443832883878176942523235360430575644792184786706982848387200926575803737830233794788090059368953234970799945081119038967640880074652742780142494579258788820056842838115669472196386865459400540160 / 1)).
Proof. apply (A41_q_clamp_hi 1000000000000000052504760255204420248704468581108159154915854115511802457988908195786371375080447864043704443832883878176942523235360430575644792184786706982848387200926575803737830233794788090059368953234970799945081119038967640880074652742780142494579258788820056842838115669472196386865459400540160 1 35 1); vm_compute; reflexivity. Qed.
Lemma d_A41_1358c : close ctol (9 / 2) (clamp A41_lo A41_hi (6032057205060441 / 6032057205060440848842124543157735677050252251748505781796615064961622344493727293370973578138265743708225425014400837164813540499979063179105919597766951022193355091707896034850684039059079180396788349106095584290087446076413771468940477241550670753145517602931224392424029547429993824129889235158145614364972941312)).
Proof. apply (A41_q_clamp_lo 6032057205060441 6032057205060440848842124543157735677050252251748505781796615064961622344493727293370973578138265743708225425014400837164813540499979063179105919597766951022193355091707896034850684039059079180396788349106095584290087446076413771468940477241550670753145517602931224392424029547429993824129889235158145614364972941312 9 2); vm_compute; reflexivity. Qed.
Lemma d_A41_1366c : close ctol (35 / 1) (clamp A41_lo A41_hi (60 / 1)).
Proof. apply (A41_q_clamp_hi 60 1 35 1); vm_compute; reflexivity. Qed.
Lemma d_A41_1375c : close ctol (9 / 2) (clamp A41_lo A41_hi (9 / 2)).
Proof. apply (A41_q_clamp_lo 9 2 9 2); vm_compute; reflexivity. Qed.
Lemma d_A41_1383c : close ctol (1231453021877667 / 35184372088832) (clamp A41_lo A41_hi (1231453021877667 / 35184372088832)).
Proof. apply (A41_q_clamp_mid 1231453021877667 35184372088832 1231453021877667 35184372088832); vm_compute; reflexivity. Qed.
Lemma d_A41_1391c : close ctol (8727045730814769 / 562949953421312) (clamp A41_lo A41_hi (4363522865407385 / 281474976710656)).
Proof. apply (A41_q_clamp_mid 4363522865407385 281474976710656 8727045730814769 562949953421312); vm_compute; reflexivity. Qed.
Lemma d_A41_1399c : close ctol (989599832276171 / 35184372088832) (clamp A41_lo A41_hi (7916798658209367 / 281474976710656)).
Proof. apply (A41_q_clamp_mid 7916798658209367 281474976710656 989599832276171 35184372088832); vm_compute; reflexivity. Qed.
Lemma d_A41_1407c : close ctol (6698414135434303 / 1125899906842624) (clamp A41_lo A41_hi (6698414135434303 / 1125899906842624)).
Proof. apply (A41_q_clamp_mid 6698414135434303 1125899906842624 6698414135434303 1125899906842624); vm_compute; reflexivity. Qed.
Lemma d_A41_1415c : close ctol (5935108999885331 / 281474976710656) (clamp A41_lo A41_hi (5935108999885331 / 281474976710656)).
Proof. apply (A41_q_clamp_mid 5935108999885331 281474976710656 5935108999885331 281474976710656); vm_compute; reflexivity. Qed.
Lemma d_A41_1423c : close ctol (3825262453411151 / 140737488355328) (clamp A41_lo A41_hi (3825262453411151 / 140737488355328)).
Proof. apply (A41_q_clamp_mid 3825262453411151 140737488355328 3825262453411151 140737488355328); vm_compute; reflexivity. Qed.
Lemma d_A41_1431c : close ctol (45446412087307 / 2199023255552) (clamp A41_lo A41_hi (5817140747175295 / 281474976710656)).
Proof. apply (A41_q_clamp_mid 5817140747175295 281474976710656 45446412087307 2199023255552); vm_compute; reflexivity. Qed.
Lemma d_A41_1439c : close ctol (9 / 2) (clamp A41_lo A41_hi (1875515429462095 / 562949953421312)).
Proof. apply (A41_q_clamp_lo 1875515429462095 562949953421312 9 2); vm_compute; reflexivity. Qed.
Lemma d_A41_1447c : close ctol (9 / 2) (clamp A41_lo A41_hi (2144917022879055 / 562949953421312)).
Proof. apply (A41_q_clamp_lo 2144917022879055 562949953421312 9 2); vm_compute; reflexivity. Qed.
Lemma d_A41_1455c : close ctol (9 / 2) (clamp A41_lo A41_hi (86372862150949 / 2251799813685248)).
Proof. apply (A41_q_clamp_lo 86372862150949 2251799813685248 9 2); vm_compute; reflexivity. Qed.
Lemma d_A41_1463c : close ctol (5433262548957947 / 562949953421312) (clamp A41_lo A41_hi (1358315637239487 / 140737488355328)).
Proof. apply (A41_q_clamp_mid 1358315637239487 140737488355328 5433262548957947 562949953421312); vm_compute; reflexivity. Qed.
Lemma d_A41_1471c : close ctol (9 / 2) (clamp A41_lo A41_hi ((-820287751530233) / 562949953421312)).
Proof. apply (A41_q_clamp_lo (-820287751530233) 562949953421312 9 2); vm_compute; reflexivity. Qed.
Lemma d_A41_1479c : close ctol (4774223536122517 / 140737488355328) (clamp A41_lo A41_hi (1193555884030629 / 35184372088832)).
Proof. apply (A41_q_clamp_mid 1193555884030629 35184372088832 4774223536122517 140737488355328); vm_compute; reflexivity. Qed.
Lemma d_A41_1487c : close ctol (1141322332104161 / 70368744177664) (clamp A41_lo A41_hi (1141322332104161 / 70368744177664)).
Proof. apply (A41_q_clamp_mid 1141322332104161 70368744177664 1141322332104161 70368744177664); vm_compute; reflexivity. Qed.
Lemma d_A41_1495c : close ctol (4451119168856913 / 140737488355328) (clamp A41_lo A41_hi (8902238337713825 / 281474976710656)).
Proof. apply (A41_q_clamp_mid 8902238337713825 281474976710656 4451119168856913 140737488355328); vm_compute; reflexivity. Qed.
Lemma d_A41_1503c : close ctol (3854776784650923 / 140737488355328) (clamp A41_lo A41_hi (3854776784650923 / 140737488355328)).
Proof. apply (A41_q_clamp_mid 3854776784650923 140737488355328 3854776784650923 140737488355328); vm_compute; reflexivity. Qed.
Lemma d_A41_1511c : close ctol (1562768085620347 / 281474976710656) (clamp A41_lo A41_hi (1562768085620347 / 281474976710656)).
Proof. apply (A41_q_clamp_mid 1562768085620347 281474976710656 1562768085620347 281474976710656); vm_compute; reflexivity. Qed.
Lemma d_A41_1519c : close ctol (1395845547769351 / 140737488355328) (clamp A41_lo A41_hi (1395845547769351 / 140737488355328)).
Proof. apply (A41_q_clamp_mid 1395845547769351 140737488355328 1395845547769351 140737488355328); vm_compute; reflexivity. Qed.
Lemma d_A41_1527c : close ctol (35 / 1) (clamp A41_lo A41_hi (3814856147815671 / 70368744177664)).
Proof. apply (A41_q_clamp_hi 3814856147815671 70368744177664 35 1); vm_compute; reflexivity. Qed.
Lemma d_A41_1535c : close ctol (5652161171268527 / 281474976710656) (clamp A41_lo A41_hi (2826080585634263 / 140737488355328)).
Proof. apply (A41_q_clamp_mid 2826080585634263 140737488355328 5652161171268527 281474976710656); vm_compute; reflexivity. Qed.
Lemma d_A41_1543c : close ctol (278339882788499 / 8796093022208) (clamp A41_lo A41_hi (278339882788499 / 8796093022208)).
Proof. apply (A41_q_clamp_mid 278339882788499 8796093022208 278339882788499 8796093022208); vm_compute; reflexivity. Qed.
Lemma d_A41_1551c : close ctol (1556068728951251 / 70368744177664) (clamp A41_lo A41_hi (1556068728951251 / 70368744177664)).
Proof. apply (A41_q_clamp_mid 1556068728951251 70368744177664 1556068728951251 70368744177664); vm_compute; reflexivity. Qed.
Lemma d_A41_1559c : close ctol (6421163796444195 / 1125899906842624) (clamp A41_lo A41_hi (6421163796444195 / 1125899906842624)).
Proof. apply (A41_q_clamp_mid 6421163796444195 1125899906842624 6421163796444195 1125899906842624); vm_compute; reflexivity. Qed.
Lemma d_A41_1567c : close ctol (9 / 2) (clamp A41_lo A41_hi (4647968793921923 / 1125899906842624)).
Proof. apply (A41_q_clamp_lo 4647968793921923 1125899906842624 9 2); vm_compute; reflexivity. Qed.
Lemma d_A41_1575c : close ctol (4087591700920437 / 140737488355328) (clamp A41_lo A41_hi (4087591700920437 / 140737488355328)).
Proof. apply (A41_q_clamp_mid 4087591700920437 140737488355328 4087591700920437 140737488355328); vm_compute; reflexivity. Qed.
Lemma d_A41_1583c : close ctol (9 / 2) (clamp A41_lo A41_hi (943851527737471 / 1125899906842624)).
Proof. apply (A41_q_clamp_lo 943851527737471 1125899906842624 9 2); vm_compute; reflexivity. Qed.
Lemma d_A41_1591c : close ctol (3965595498400533 / 281474976710656) (clamp A41_lo A41_hi (3965595498400533 / 281474976710656)).
Proof. apply (A41_q_clamp_mid 3965595498400533 281474976710656 3965595498400533 281474976710656); vm_compute; reflexivity. Qed.
Lemma d_A41_1599c : close ctol (7881299347898369 / 1125899906842624) (clamp A41_lo A41_hi (7 / 1)).
Proof. apply (A41_q_clamp_mid 7 1 7881299347898369 1125899906842624); vm_compute; reflexivity. Qed.
Lemma d_A41_1607c : close ctol (19 / 1) (clamp A41_lo A41_hi (19 / 1)).
Proof. apply (A41_q_clamp_mid 19 1 19 1); vm_compute; reflexivity. Qed.
Lemma d_A41_1615c : close ctol (681661593174141 / 35184372088832) (clamp A41_lo A41_hi (681661593174141 / 35184372088832)).
Proof. apply (A41_q_clamp_mid 681661593174141 35184372088832 681661593174141 35184372088832); vm_compute; reflexivity. Qed.
Lemma d_A41_1623c : close ctol (9 / 2) (clamp A41_lo A41_hi ((-859948306407849) / 562949953421312)).
Proof. apply (A41_q_clamp_lo (-859948306407849) 562949953421312 9 2); vm_compute; reflexivity. Qed.
Lemma d_A41_1631c : close ctol (7464692899719775 / 281474976710656) (clamp A41_lo A41_hi (7464692899719775 / 281474976710656)).
Proof. apply (A41_q_clamp_mid 7464692899719775 281474976710656 7464692899719775 281474976710656); vm_compute; reflexivity. Qed.
Lemma d_A41_1639c : close ctol (1833245158310377 / 70368744177664) (clamp A41_lo A41_hi (1833245158310377 / 70368744177664)).
Proof. apply (A41_q_clamp_mid 1833245158310377 70368744177664 1833245158310377 70368744177664); vm_compute; reflexivity. Qed.
Lemma d_A41_1647c : close ctol (6015937398385507 / 562949953421312) (clamp A41_lo A41_hi (1503984349596377 / 140737488355328)).
Proof. apply (A41_q_clamp_mid 1503984349596377 140737488355328 6015937398385507 562949953421312); vm_compute; reflexivity. Qed.
Lemma d_A41_1655c : close ctol (9 / 2) (clamp A41_lo A41_hi (4299421311940667 / 1125899906842624)).
Proof. apply (A41_q_clamp_lo 4299421311940667 1125899906842624 9 2); vm_compute; reflexivity. Qed.
Lemma d_A41_1663c : close ctol (4794865447515157 / 140737488355328) (clamp A41_lo A41_hi (4794865447515157 / 140737488355328)).
Proof. apply (A41_q_clamp_mid 4794865447515157 140737488355328 4794865447515157 140737488355328); vm_compute; reflexivity. Qed.
Lemma d_A41_1671c : close ctol (9007199254740991 / 281474976710656) (clamp A41_lo A41_hi (32 / 1)).
Proof. apply (A41_q_clamp_mid 32 1 9007199254740991 281474976710656); vm_compute; reflexivity. Qed.
Lemma d_A41_1679c : close ctol (4128333743651557 / 140737488355328) (clamp A41_lo A41_hi (8256667487303115 / 281474976710656)).
Proof. apply (A41_q_clamp_mid 8256667487303115 281474976710656 4128333743651557 140737488355328); vm_compute; reflexivity. Qed.
Lemma d_A41_1687c : close ctol (1136553612039411 / 35184372088832) (clamp A41_lo A41_hi (1136553612039411 / 35184372088832)).
Proof. apply (A41_q_clamp_mid 1136553612039411 35184372088832 1136553612039411 35184372088832); vm_compute; reflexivity. Qed.
Lemma d_A41_1695c : close ctol (5144056408608541 / 281474976710656) (clamp A41_lo A41_hi (5144056408608541 / 281474976710656)).
Proof. apply (A41_q_clamp_mid 5144056408608541 281474976710656 5144056408608541 281474976710656); vm_compute; reflexivity. Qed.
Lemma d_A41_1703c : close ctol (6050210959804233 / 281474976710656) (clamp A41_lo A41_hi (6050210959804233 / 281474976710656)).
Proof. apply (A41_q_clamp_mid 6050210959804233 281474976710656 6050210959804233 281474976710656); vm_compute; reflexivity. Qed.
Lemma d_A41_1711c : close ctol (375686832442591 / 17592186044416) (clamp A41_lo A41_hi (375686832442591 / 17592186044416)).
Proof. apply (A41_q_clamp_mid 375686832442591 17592186044416 375686832442591 17592186044416); vm_compute; reflexivity. Qed.
Lemma d_A41_1719c : close ctol (9 / 2) (clamp A41_lo A41_hi (2502754996758091 / 1125899906842624)).
Proof. apply (A41_q_clamp_lo 2502754996758091 1125899906842624 9 2); vm_compute; reflexivity. Qed.
Lemma d_A41_1727c : close ctol (35 / 1) (clamp A41_lo A41_hi (323571018755525 / 4398046511104)).
Proof. apply (A41_q_clamp_hi 323571018755525 4398046511104 35 1); vm_compute; reflexivity. Qed.
Lemma d_A41_1735c : close ctol (8562110717070743 / 562949953421312) (clamp A41_lo A41_hi (4281055358535371 / 281474976710656)).
Proof. apply (A41_q_clamp_mid 4281055358535371 281474976710656 8562110717070743 562949953421312); vm_compute; reflexivity. Qed.
Lemma d_A41_1743c : close ctol (9 / 2) (clamp A41_lo A41_hi (301224855275509 / 2251799813685248)).
Proof. apply (A41_q_clamp_lo 301224855275509 2251799813685248 9 2); vm_compute; reflexivity. Qed.
Lemma d_A41_1751c : close ctol (2288488094939117 / 140737488355328) (clamp A41_lo A41_hi (2288488094939117 / 140737488355328)).
Proof. apply (A41_q_clamp_mid 2288488094939117 140737488355328 2288488094939117 140737488355328); vm_compute; reflexivity. Qed.
Lemma d_A41_1759c : close ctol (3422801502428983 / 140737488355328) (clamp A41_lo A41_hi (6845603004857965 / 281474976710656)).
Proof. apply (A41_q_clamp_mid 6845603004857965 281474976710656 3422801502428983 140737488355328); vm_compute; reflexivity. Qed.
Lemma d_A41_1767c : close ctol (6021120246977077 / 281474976710656) (clamp A41_lo A41_hi (6021120246977077 / 281474976710656)).
Proof. apply (A41_q_clamp_mid 6021120246977077 281474976710656 6021120246977077 281474976710656); vm_compute; reflexivity. Qed.
Lemma d_A41_1775c : close ctol (5227235278867067 / 281474976710656) (clamp A41_lo A41_hi (5227235278867067 / 281474976710656)).
Proof. apply (A41_q_clamp_mid 5227235278867067 281474976710656 5227235278867067 281474976710656); vm_compute; reflexivity. Qed.
Lemma d_A41_1783c : close ctol (35 / 1) (clamp A41_lo A41_hi (4275219667681999 / 70368744177664)).
Proof. apply (A41_q_clamp_hi 4275219667681999 70368744177664 35 1); vm_compute; reflexivity. Qed.
Lemma d_A41_1791c : close ctol (9 / 2) (clamp A41_lo A41_hi (3 / 1)).
Proof. apply (A41_q_clamp_lo 3 1 9 2); vm_compute; reflexivity. Qed.
Lemma d_A41_1799c : close ctol (5287300726498305 / 281474976710656) (clamp A41_lo A41_hi (5287300726498305 / 281474976710656)).
Proof. apply (A41_q_clamp_mid 5287300726498305 281474976710656 5287300726498305 281474976710656); vm_compute; reflexivity. Qed.
Lemma d_A41_1807c : close ctol (2263028022524341 / 140737488355328) (clamp A41_lo A41_hi (2263028022524341 / 140737488355328)).
Proof. apply (A41_q_clamp_mid 2263028022524341 140737488355328 2263028022524341 140737488355328); vm_compute; reflexivity. Qed.
Lemma d_A41_1815c : close ctol (35 / 1) (clamp A41_lo A41_hi (1898705987129869 / 35184372088832)).
Proof. apply (A41_q_clamp_hi 1898705987129869 35184372088832 35 1); vm_compute; reflexivity. Qed.
Lemma d_A41_1823c : close ctol (9 / 2) (clamp A41_lo A41_hi (523960724962109 / 2251799813685248)).
Proof. apply (A41_q_clamp_lo 523960724962109 2251799813685248 9 2); vm_compute; reflexivity. Qed.
Lemma d_A41_1831c : close ctol (2578764303429171 / 140737488355328) (clamp A41_lo A41_hi (2578764303429171 / 140737488355328)).
Proof. apply (A41_q_clamp_mid 2578764303429171 140737488355328 2578764303429171 140737488355328); vm_compute; reflexivity. Qed.
Lemma d_A41_1839c : close ctol (35 / 1) (clamp A41_lo A41_hi (63 / 1)).
Proof. apply (A41_q_clamp_hi 63 1 35 1); vm_compute; reflexivity. Qed.
Lemma d_A41_1847c : close ctol (578841243529709 / 17592186044416) (clamp A41_lo A41_hi (578841243529709 / 17592186044416)).
Proof. apply (A41_q_clamp_mid 578841243529709 17592186044416 578841243529709 17592186044416); vm_compute; reflexivity. Qed.
Lemma d_A41_1855c : close ctol (8482186170091501 / 562949953421312) (clamp A41_lo A41_hi (8482186170091501 / 562949953421312)).
Proof. apply (A41_q_clamp_mid 8482186170091501 562949953421312 8482186170091501 562949953421312); vm_compute; reflexivity. Qed.
Lemma d_A41_1863c : close ctol (6286579440088063 / 281474976710656) (clamp A41_lo A41_hi (6286579440088063 / 281474976710656)).
Proof. apply (A41_q_clamp_mid 6286579440088063 281474976710656 6286579440088063 281474976710656); vm_compute; reflexivity. Qed.
Lemma d_A41_1871c : close ctol (4683654539414095 / 140737488355328) (clamp A41_lo A41_hi (2341827269707047 / 70368744177664)).
Proof. apply (A41_q_clamp_mid 2341827269707047 70368744177664 4683654539414095 140737488355328); vm_compute; reflexivity. Qed.
Lemma d_A41_1879c : close ctol (5982419661447367 / 1125899906842624) (clamp A41_lo A41_hi (5982419661447367 / 1125899906842624)).
Proof. apply (A41_q_clamp_mid 5982419661447367 1125899906842624 5982419661447367 1125899906842624); vm_compute; reflexivity. Qed.
Lemma d_A41_1887c : close ctol (9 / 2) (clamp A41_lo A41_hi ((-4) / 1)).
Proof. apply (A41_q_clamp_lo (-4) 1 9 2); vm_compute; reflexivity. Qed.
Lemma d_A41_1895c : close ctol (9 / 2) (clamp A41_lo A41_hi ((-5812117673990787) / 4503599627370496)).
Proof. apply (A41_q_clamp_lo (-5812117673990787) 4503599627370496 9 2); vm_compute; reflexivity. Qed.
Lemma d_A41_1903c : close ctol (67074771235235 / 2199023255552) (clamp A41_lo A41_hi (8585570718110081 / 281474976710656)).
Proof. apply (A41_q_clamp_mid 8585570718110081 281474976710656 67074771235235 2199023255552); vm_compute; reflexivity. Qed.
Lemma d_A41_1911c : close ctol (441651764326707 / 17592186044416) (clamp A41_lo A41_hi (7066428229227311 / 281474976710656)).
Proof. apply (A41_q_clamp_mid 7066428229227311 281474976710656 441651764326707 17592186044416); vm_compute; reflexivity. Qed.
Lemma d_A41_1919c : close ctol (791714388370051 / 70368744177664) (clamp A41_lo A41_hi (791714388370051 / 70368744177664)).
Proof. apply (A41_q_clamp_mid 791714388370051 70368744177664 791714388370051 70368744177664); vm_compute; reflexivity. Qed.
Lemma d_A41_1927c : close ctol (3520374353468251 / 562949953421312) (clamp A41_lo A41_hi (3520374353468251 / 562949953421312)).
Proof. apply (A41_q_clamp_mid 3520374353468251 562949953421312 3520374353468251 562949953421312); vm_compute; reflexivity. Qed.
Lemma d_A41_1935c : close ctol (2387207659544285 / 140737488355328) (clamp A41_lo A41_hi (2387207659544285 / 140737488355328)).
Proof. apply (A41_q_clamp_mid 2387207659544285 140737488355328 2387207659544285 140737488355328); vm_compute; reflexivity. Qed.
Lemma d_A41_1943c : close ctol (9 / 2) (clamp A41_lo A41_hi ((-87389835934433) / 281474976710656)).
Proof. apply (A41_q_clamp_lo (-87389835934433) 281474976710656 9 2); vm_compute; reflexivity. Qed.
Lemma d_A41_1951c : close ctol (2400182516186265 / 70368744177664) (clamp A41_lo A41_hi (2400182516186265 / 70368744177664)).
Proof. apply (A41_q_clamp_mid 2400182516186265 70368744177664 2400182516186265 70368744177664); vm_compute; reflexivity. Qed.
Lemma d_A41_1959c : close ctol (9 / 2) (clamp A41_lo A41_hi (1185984086905725 / 1125899906842624)).
Proof. apply (A41_q_clamp_lo 1185984086905725 1125899906842624 9 2); vm_compute; reflexivity. Qed.
Lemma d_A41_1967c : close ctol (503338762262459 / 17592186044416) (clamp A41_lo A41_hi (8053420196199343 / 281474976710656)).
Proof. apply (A41_q_clamp_mid 8053420196199343 281474976710656 503338762262459 17592186044416); vm_compute; reflexivity. Qed.
Lemma d_A41_1975c : close ctol (74893763699447 / 8796093022208) (clamp A41_lo A41_hi (74893763699447 / 8796093022208)).
Proof. apply (A41_q_clamp_mid 74893763699447 8796093022208 74893763699447 8796093022208); vm_compute; reflexivity. Qed.
Lemma d_A41_1983c : close ctol (1220824122977081 / 35184372088832) (clamp A41_lo A41_hi (1220824122977081 / 35184372088832)).
Proof. apply (A41_q_clamp_mid 1220824122977081 35184372088832 1220824122977081 35184372088832); vm_compute; reflexivity. Qed.
Lemma d_A41_1991c : close ctol (596911625950791 / 17592186044416) (clamp A41_lo A41_hi (596911625950791 / 17592186044416)).
Proof. apply (A41_q_clamp_mid 596911625950791 17592186044416 596911625950791 17592186044416); vm_compute; reflexivity. Qed.
Check d_A41_1991c.
