#!/bin/sh
# Build the whole Coq development from clean (full .vo; never -vos/-vok) and
# grep it for anything that declares an axiom or disables a kernel check.
set -e
cd "$(dirname "$0")/coq"
rm -f Makefile Makefile.conf .Makefile.d
find theories -name '*.vo' -o -name '*.vos' -o -name '*.vok' -o -name '*.glob' -o -name '.*.aux' | xargs -r rm -f
coq_makefile -f _CoqProject -o Makefile
timeout 3000 make -j16
cd ..
if grep -rnE '\b(Admitted|admit|Axiom|Parameter|Conjecture)\b|Unset Guard|bypass_check|type-in-type|impredicative-set' coq/theories --include='*.v' | grep -v '^[^:]*:[0-9]*: *(\*' ; then
  echo "forbidden token in the development" >&2; exit 1
fi
echo "setup ok"
