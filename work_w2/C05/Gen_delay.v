From Coq Require Import ZArith List Bool Lia ZifyBool.
Import ListNotations.
Open Scope Z_scope.
Open Scope bool_scope.

From RV Require Import Delay.Model.

Definition gen_create (p : Z) (t0 : Z) :=
  (mkND p (t0 + p) true (Some (t0 + p)) 0%nat).
Lemma src_gen_create : forall (p : Z) (t0 : Z), gen_create p t0 = create p t0.
Proof. intros. reflexivity. Qed.

Definition gen_wait (self : nd) (now : Z) :=
  (if (negb (live self)) then (mkND (period self) (expiry self) (live self) (alarm self) (released self), now) else (mkND (period self) (expiry self + period self) (live self) (Some (expiry self + period self)) (released self), (hal_wait (alarm self) now))).
Lemma src_gen_wait : forall (self : nd) (now : Z), gen_wait self now = wait self now.
Proof.
  intros self now; destruct self; repeat (match goal with x : bool |- _ => destruct x end); unfold gen_wait, wait; cbn;
  repeat match goal with |- context [if ?b then _ else _] => destruct b eqn:? end;
  try reflexivity; try (exfalso; lia); try (f_equal; f_equal; lia).
Qed.

Definition gen_free (self : nd)  :=
  (if (negb (live self)) then (mkND (period self) (expiry self) (live self) (alarm self) (released self)) else (mkND (period self) (expiry self) false None (S (released self)))).
Lemma src_gen_free : forall (self : nd) , gen_free self  = free self .
Proof.
  intros self ; destruct self; repeat (match goal with x : bool |- _ => destruct x end); unfold gen_free, free; cbn;
  repeat match goal with |- context [if ?b then _ else _] => destruct b eqn:? end;
  try reflexivity; try (exfalso; lia); try (f_equal; f_equal; lia).
Qed.

Definition gen_exit (self : nd) (exc : bool) :=
  (if (negb (live self)) then (mkND (period self) (expiry self) (live self) (alarm self) (released self), false) else (mkND (period self) (expiry self) false None (S (released self)), false)).
Lemma src_gen_exit : forall (self : nd) (exc : bool), gen_exit self exc = (fun d (exc : bool) => (free d, false)) self exc.
Proof.
  intros self exc; destruct self; repeat (match goal with x : bool |- _ => destruct x end); unfold gen_exit, free; cbn;
  repeat match goal with |- context [if ?b then _ else _] => destruct b eqn:? end;
  try reflexivity; try (exfalso; lia); try (f_equal; f_equal; lia).
Qed.

Definition gen_del (self : nd)  :=
  (if (negb (live self)) then (mkND (period self) (expiry self) (live self) (alarm self) (released self)) else (mkND (period self) (expiry self) false None (S (released self)))).
Lemma src_gen_del : forall (self : nd) , gen_del self  = free self .
Proof.
  intros self ; destruct self; repeat (match goal with x : bool |- _ => destruct x end); unfold gen_del, free; cbn;
  repeat match goal with |- context [if ?b then _ else _] => destruct b eqn:? end;
  try reflexivity; try (exfalso; lia); try (f_equal; f_equal; lia).
Qed.

Definition gen_enter (self : nd) (now : Z) :=
  (mkND (period self) (expiry self) (live self) (alarm self) (released self), true).
Lemma src_gen_enter : forall (self : nd) (now : Z), gen_enter self now = (fun d (now : Z) => enter d) self now.
Proof.
  intros self now; destruct self; repeat (match goal with x : bool |- _ => destruct x end); unfold gen_enter, enter; cbn;
  repeat match goal with |- context [if ?b then _ else _] => destruct b eqn:? end;
  try reflexivity; try (exfalso; lia); try (f_equal; f_equal; lia).
Qed.

Definition gen_wait_begin (self : nd) : option bool :=
  (if (negb (live self)) then None else (Some (live self))).
Lemma src_gen_wait_begin : forall (self : nd), gen_wait_begin self = wait_begin self.
Proof.
  intros; destruct self; repeat (match goal with x : bool |- _ => destruct x end);
  unfold gen_wait_begin, wait_begin; cbn;
  repeat match goal with |- context [if ?b then _ else _] => destruct b eqn:? end;
  repeat match goal with |- context [match ?n with O => _ | S _ => _ end] => destruct n end;
  try reflexivity; try (exfalso; lia); try (repeat f_equal; lia).
Qed.

Definition gen_wait_end (self : nd) (handle : bool) (now : Z) : nd * Z * bool :=
  (if handle then ((mkND (period self) (expiry self + period self) (live self) (match (released self) with O => Some (expiry self + period self) | S _ => None end) (released self)), (hal_wait (alarm self) now), false) else ((mkND (period self) (expiry self + period self) (live self) (alarm self) (released self)), (hal_wait (alarm self) now), true)).
Lemma src_gen_wait_end : forall (self : nd) (handle : bool) (now : Z), gen_wait_end self handle now = wait_end self handle now.
Proof.
  intros; destruct self; repeat (match goal with x : bool |- _ => destruct x end);
  unfold gen_wait_end, wait_end, hal_update, hal_wait; cbn;
  repeat match goal with |- context [if ?b then _ else _] => destruct b eqn:? end;
  repeat match goal with |- context [match ?n with O => _ | S _ => _ end] => destruct n end;
  try reflexivity; try (exfalso; lia); try (repeat f_equal; lia).
Qed.
